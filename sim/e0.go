package sim

// E0: the replica world. A discrete-event simulation of several replicas of one
// log exchanging state over a faulty network and a shared block store, checked
// after every event against the reference model.

import (
	"context"
	"encoding/hex"
	"fmt"
	"math"
	"sort"
	"strings"
	"time"

	ipfslog "berty.tech/go-ipfs-log"
	"berty.tech/go-ipfs-log/accesscontroller"
	"berty.tech/go-ipfs-log/entry"
	"berty.tech/go-ipfs-log/entry/sorting"
	"berty.tech/go-ipfs-log/iface"
	"berty.tech/go-ipfs-log/io/cbor"
	"github.com/ipfs/go-cid"
)

const (
	opEnd = iota
	opAppend
	opJoinLive
	opSend
	opDeliver
	opPublish
	opCrash
	opRestart
	opPartition
	opHeal
	opClockJump
	opSpecial
	opSetID
	opAlgebra
	opStall
	opIter
	opBounded
	opByz
	opDenied
	opReader
	opTamper
	opPolicy
	opCrashAll
	opRefused
	opRawEntry
	opRebuild
	opPartial
	opBurst
	opFan
	nOps
)

var opNames = [...]string{"end", "append", "joinlive", "send", "deliver", "publish", "crash", "restart", "partition", "heal",
	"clockjump", "special", "setid", "algebra", "stall", "iter", "bounded", "byz", "denied", "reader", "tamper", "policy", "crashall", "refused", "rawentry", "rebuild", "partial", "burst", "fan"}

type Profile struct {
	Prop    string
	Weights [nOps]int
	// which oracle families are evaluated
	Check map[string]bool
	// extra behaviour
	LinkKey            bool // writers use a link-encrypting codec in (most) runs
	CodecSwarm         bool // draw the codec (default | link | pb) per run
	CrashEnum          bool // C17: enumerate crash points over the write log
	NoFaults           bool // source-building worlds: no fault kind enabled
	ClockJumps         bool // ... except Lamport clock jumps
	MemOnly            bool // messages only in in-memory forms (no store loads while building)
	MinSteps, MaxSteps int
}

func baseWeights() [nOps]int {
	var w [nOps]int
	w[opAppend] = 30
	w[opJoinLive] = 10
	w[opSend] = 14
	w[opDeliver] = 16
	w[opPublish] = 5
	w[opCrash] = 3
	w[opRestart] = 4
	w[opPartition] = 2
	w[opHeal] = 2
	w[opClockJump] = 2
	w[opSpecial] = 3
	w[opSetID] = 1
	w[opAlgebra] = 2
	w[opStall] = 2
	w[opRefused] = 3
	w[opByz] = 2
	w[opRebuild] = 3
	w[opBurst] = 1
	w[opFan] = 1
	return w
}

type durablePtr struct {
	kind  int // 0 manifest, 1 entry hash
	c     cid.Cid
	set   map[string]bool
	ver   int
	json  *iface.JSONLog       // what the application may have kept besides the manifest cid
	heads []iface.IPFSLogEntry // (head list / head entries): alternative ways to restart
}

type Node struct {
	Idx        int
	W          *Writer
	Log        *ipfslog.IPFSLog
	Set        map[string]bool
	Up         bool
	Gen        int
	Durable    *durablePtr
	Stalled    int // remaining steps of stall
	ClockAhead bool
	Pol        *policy
	loadOpts   *ipfslog.LogOptions

	// C05 monitor state (per instance generation)
	seen     map[string]string
	prevVals []string
	prevLen  int
}

type Msg struct {
	id      int
	from    int
	to      int
	form    int
	set     map[string]bool
	entries iface.IPFSLogOrderedEntries
	heads   []iface.IPFSLogEntry
	c       cid.Cid
	json    *iface.JSONLog
	due     int64
	byz     *byzPlan
}

type World struct {
	R            *Run
	P            *Profile
	St           *Store
	M            *Model
	Cids         map[string]cid.Cid
	Ent          map[string]iface.IPFSLogEntry // hash -> an honest in-memory entry object
	ByHash       bool
	LogID        string
	IO           iface.IO
	Codec        string
	LinkKeyBytes []byte
	ShareOpts    bool
	LogConc      uint                    // LogOptions.Concurrency of every log of the world (0 = default)
	curProgress  chan iface.IPFSLogEntry // progress channel of the load being driven (nil: none)
	sharedOpts   *ipfslog.LogOptions
	sharedFetch  *entry.FetchOptions
	Nodes        []*Node
	Net          []*Msg
	msgSeq       int
	Part         []int
	Parted       bool
	Now          int64 // simulated ms
	NW           int
	PayloadBin   bool
	PCMode       int
	payloadSeq   int
	emptyUsed    bool
	Big          bool
	bursts       int
	fans         int
	sharedNode   *ipfslog.LogOptions
	F            struct{ drop, dup, partition, crash, stall, clockjump, adderr bool }
	Ptrs         []ptrRec
	lastByz      *byzBatch
	Foreign      *ipfslog.IPFSLog
	ctx          context.Context
	step         int
}

func (w *World) sortFn() iface.EntrySortFn {
	if w.M.TimeHash {
		return sortTimeThenHash
	}
	if w.ByHash {
		return sorting.SortByEntryHash
	}
	return nil
}

// sortTimeThenHash: an application-defined ordering - Lamport time first, entry hash as the only
// tie-breaker. A strict total order that is consistent with causality and differs from both built-in
// orderings whenever two writers produce entries with equal times.
func sortTimeThenHash(a, b iface.IPFSLogEntry) (int, error) {
	if d := a.GetClock().GetTime() - b.GetClock().GetTime(); d != 0 {
		if d < 0 {
			return -1, nil
		}
		return 1, nil
	}
	return strings.Compare(a.GetHash().String(), b.GetHash().String()), nil
}

func defaultIO() *cbor.IOCbor {
	io, err := cbor.IO(&entry.Entry{}, &entry.LamportClock{})
	if err != nil {
		panic(&harnessError{"cbor.IO: " + err.Error()})
	}
	return io
}

func (w *World) logOpts() *ipfslog.LogOptions {
	return &ipfslog.LogOptions{ID: w.LogID, SortFn: w.sortFn(), IO: w.IO, Concurrency: w.LogConc}
}

// loadOpts: the options value handed to the loaders. In half of the worlds the application keeps
// one options value and passes it to every load, as one does with a configuration struct.
func (w *World) loadOpts() *ipfslog.LogOptions {
	if !w.ShareOpts {
		return w.logOpts()
	}
	if w.sharedOpts == nil {
		w.sharedOpts = w.logOpts()
	}
	w.R.Probe("options-value-reused-across-loads")
	return w.sharedOpts
}

// fetchOpts: the fetch options value for NewFromJSON / NewFromEntry. In the worlds that reuse one options
// value the application also keeps one fetch-options value and only sets the fields it means to set.
func (w *World) fetchOpts(conc int, length *int, timeout time.Duration) *entry.FetchOptions {
	if !w.ShareOpts {
		return &entry.FetchOptions{Concurrency: conc, Length: length, Timeout: timeout, ProgressChan: w.curProgress}
	}
	if w.sharedFetch == nil {
		w.sharedFetch = &entry.FetchOptions{}
	}
	f := w.sharedFetch
	f.Concurrency, f.Length, f.Timeout, f.ProgressChan = conc, length, timeout, w.curProgress
	return f
}

// nodeLoadOpts: the same for a replica's own reloads (its options carry its access controller).
func (w *World) nodeLoadOpts(n *Node) *ipfslog.LogOptions {
	if !w.ShareOpts {
		return w.nodeOpts(n)
	}
	if n.loadOpts == nil {
		n.loadOpts = w.nodeOpts(n)
	}
	w.R.Probe("options-value-reused-across-loads")
	return n.loadOpts
}

// nodeOpts: options for a replica's own log instance (its access controller is a policy the
// harness can switch to "deny" for a single append).
func (w *World) nodeOpts(n *Node) *ipfslog.LogOptions {
	o := w.logOpts()
	o.AccessController = n.Pol
	return o
}

// emptyLogOpts: the options value for creating a replica's (empty) log.
func (w *World) emptyLogOpts(n *Node) *ipfslog.LogOptions {
	if w.ShareOpts {
		// one configuration value for all the (empty) logs the application creates, the access controller set
		// per log before each NewLog: what a log is made of must not live in that value
		if w.sharedNode == nil {
			w.sharedNode = w.logOpts()
		}
		w.sharedNode.AccessController = n.Pol
		w.R.Probe("options-value-reused-across-new-logs")
		return w.sharedNode
	}
	o := w.logOpts()
	o.AccessController = n.Pol
	return o
}

func (w *World) newLog(wr *Writer, o *ipfslog.LogOptions) *ipfslog.IPFSLog {
	l, err := ipfslog.NewLog(w.St, wr.ID, o)
	if err != nil {
		w.R.Harness("NewLog: %v", err)
	}
	return l
}

func NewWorld(r *Run, p *Profile) *World {
	w := &World{R: r, P: p, St: NewStore(), M: NewModel(), Cids: map[string]cid.Cid{}, Ent: map[string]iface.IPFSLogEntry{},
		LogID: "L", ctx: context.Background()}
	w.St.OnFault = func(k string) { r.Fault(k) }
	nrep := 2 + r.Choose("nrep", 4)
	switch r.Choose("ordering", 3) {
	case 0:
		w.ByHash = true
	case 2:
		w.M.TimeHash = true
	}
	w.NW = 1 + r.Choose("nwriters", 4)
	w.PayloadBin = r.Choose("payload-alphabet", 3) == 0
	w.PCMode = r.Choose("pointer-mode", 3)
	faulty := r.Choose("fault-batch", 4) != 0 // a quarter of the runs are fault-free
	if faulty && !p.NoFaults {
		w.F.drop = r.Bool("f-drop", 1, 2)
		w.F.dup = r.Bool("f-dup", 1, 2)
		w.F.partition = r.Bool("f-part", 1, 2)
		w.F.crash = r.Bool("f-crash", 1, 2)
		w.F.stall = r.Bool("f-stall", 1, 2)
		w.F.clockjump = r.Bool("f-clock", 1, 2)
		w.F.adderr = r.Bool("f-adderr", 1, 2)
	}
	if p.ClockJumps {
		w.F.clockjump = true
	}
	if p.Check["C17"] {
		w.installCrashMonitor()
	}
	w.setupCodec()
	dupLinksCanonicalised = w.LinkKeyBytes != nil
	w.ShareOpts = r.Choose("share-load-options", 2) == 0
	// bursts and wide forks in half of the replica worlds and a quarter of the source worlds of the fetch engines
	// (long and wide logs cost time at every later step, and every block of a load is a driver step)
	w.Big = r.Choose("big-world", 4) < map[bool]int{false: 2, true: 1}[p.MemOnly]
	w.LogConc = []uint{0, 0, 0, 1, 2, 5, math.MaxUint, 1 << 63}[r.Choose("log-concurrency", 8)]
	if w.Codec == "pb" {
		w.F.crash = false // the legacy codec cannot read back what it writes for v2 entries: in-memory exchange only
	}
	ws := Writers()
	for i := 0; i < nrep; i++ {
		n := &Node{Idx: i, W: ws[i%w.NW], Set: map[string]bool{}, Up: true, Pol: &policy{}}
		n.Log = w.newLog(n.W, w.emptyLogOpts(n))
		w.resetMonitor(n)
		w.Nodes = append(w.Nodes, n)
	}
	w.Part = make([]int, nrep)
	r.Logf("world nrep=%d byHash=%v timeHash=%v writers=%d codec=%s bin=%v pcmode=%d faults=%+v", nrep, w.ByHash, w.M.TimeHash, w.NW, w.Codec, w.PayloadBin, w.PCMode, w.F)
	return w
}

func (w *World) setupCodec() {
	w.IO = defaultIO()
	w.Codec = "cbor"
	if w.P.CodecSwarm || w.P.LinkKey {
		k := w.R.Choose("codec", 4)
		if w.P.LinkKey && k == 0 {
			k = 1
		}
		switch k {
		case 1, 2:
			w.Codec = "cbor+linkkey"
			w.LinkKeyBytes = linkKeyBytes(1)
			w.IO = linkIO(w.LinkKeyBytes)
		case 3:
			if !w.P.LinkKey {
				w.Codec = "pb"
				w.IO = pbIO()
			} else {
				w.Codec = "cbor+linkkey"
				w.LinkKeyBytes = linkKeyBytes(1)
				w.IO = linkIO(w.LinkKeyBytes)
			}
		}
	}
}

func (w *World) register(e iface.IPFSLogEntry) *MEntry {
	h := e.GetHash().String()
	if _, ok := w.Cids[h]; !ok {
		w.Cids[h] = e.GetHash()
		w.Ent[h] = e
	}
	return w.M.Register(e)
}

func (w *World) upNodes() []*Node {
	var out []*Node
	for _, n := range w.Nodes {
		if n.Up && n.Stalled == 0 {
			out = append(out, n)
		}
	}
	return out
}

func (w *World) pickUp(label string) *Node {
	ups := w.upNodes()
	if len(ups) == 0 {
		w.R.Choose(label, 1)
		return nil
	}
	return ups[w.R.Choose(label, len(ups))]
}

func (w *World) pickOp() int {
	total := 0
	for _, x := range w.P.Weights {
		total += x
	}
	// the run ends when the tape says so (values below endW): run length is geometric with mean
	// (MinSteps+MaxSteps)/2, capped at MaxSteps. Because the end is encoded where it happens,
	// deleting a step from a tape shortens the run by exactly that step (exhausted tape = 0 = end).
	endW := 2 * total / (w.P.MinSteps + w.P.MaxSteps)
	if endW < 1 {
		endW = 1
	}
	v := w.R.Choose("op", total+endW)
	if v < endW {
		return opEnd
	}
	v -= endW
	for op, x := range w.P.Weights {
		if v < x {
			return op
		}
		v -= x
	}
	return opEnd
}

func (w *World) payload() []byte {
	w.payloadSeq++
	p := []byte(fmt.Sprintf("p%d", w.payloadSeq))
	if !w.PayloadBin && w.R.Choose("pl-structured", 6) == 0 {
		// what applications store: a small JSON document (to the log it is bytes like any other payload)
		return []byte(fmt.Sprintf(`{"op":"PUT", "key":"p%d", "value":"<%d>"}`, w.payloadSeq, w.payloadSeq))
	}
	if w.PayloadBin {
		// an empty payload is a legal payload; at most one per world, so no two entries can coincide
		if !w.emptyUsed && w.R.Choose("pl-empty", 8) == 0 {
			w.emptyUsed = true
			w.R.Probe("empty-payload")
			return []byte{}
		}
		n := 1 + w.R.Choose("pl-len", 6)
		for i := 0; i < n; i++ {
			p = append(p, byte(w.R.Choose("pl-byte", 256)))
		}
	}
	return p
}

func (w *World) pointerCount() int {
	switch w.PCMode {
	case 0:
		return 1
	case 1:
		return 1 << uint(w.R.Choose("pc-pow", 7))
	default:
		return 1 + w.R.Choose("pc", 64)
	}
}

// The ordered maps the library hands out are checked wherever the harness reads them: a key listed twice,
// or a key without an entry, is a corrupt index - a fault of the library, reported as such instead of
// being tripped over.
func hashSet(om iface.IPFSLogOrderedEntries) map[string]bool {
	s := map[string]bool{}
	for _, k := range om.Keys() {
		if s[k] {
			panic(&Violation{Oracle: "index:corrupt", Msg: "an entry index lists the key " + k + " twice"})
		}
		if e, ok := om.Get(k); !ok || e == nil {
			panic(&Violation{Oracle: "index:corrupt", Msg: "an entry index lists the key " + k + " but holds no entry for it"})
		}
		s[k] = true
	}
	return s
}

// liveSlice is om.Slice() with the same check.
func liveSlice(om iface.IPFSLogOrderedEntries) []iface.IPFSLogEntry {
	sl := om.Slice()
	for i, e := range sl {
		if e == nil {
			panic(&Violation{Oracle: "index:corrupt", Msg: fmt.Sprintf("position %d of %d of an entry index holds no entry", i, len(sl))})
		}
	}
	return sl
}

func hashSeq(om iface.IPFSLogOrderedEntries) []string {
	sl := liveSlice(om)
	out := make([]string, len(sl))
	for i, e := range sl {
		out[i] = e.GetHash().String()
	}
	return out
}

func sortedCopy(xs []string) []string {
	c := append([]string(nil), xs...)
	sort.Strings(c)
	return c
}

// ---------------------------------------------------------------- operations

func (w *World) doAppend() {
	n := w.pickUp("append-node")
	pc := w.pointerCount()
	pl := w.payload()
	if n == nil {
		return
	}
	before := w.M.Heads(n.Set)
	maxT := w.M.MaxTime(n.Set)
	// two replicas of one writer in the same state may write the same payload: the entries then differ at
	// most in their references (another pointer count) - or not at all
	if tw := w.twinsFor(n); len(tw) > 0 {
		if k := w.R.Choose("append-twin", 3*len(tw)); k < len(tw) {
			pl = []byte(tw[k].Payload)
			w.R.Probe("append-of-a-payload-a-sibling-replica-wrote-in-the-same-state")
		}
	}
	if len(before) >= 2 && w.Codec != "pb" && w.R.Choose("append-via-entry-api", 4) == 0 {
		w.appendViaEntryAPI(n, pl, before, maxT)
		return
	}
	pin := false
	if w.P.Check["C17"] {
		pin = w.R.Bool("pin", 1, 4)
	}
	if w.F.adderr && w.R.Bool("add-error", 1, 10) {
		w.appendWithDiskError(n, pl, pc)
		return
	}
	if w.LinkKeyBytes != nil && w.F.adderr && len(n.Set) > 0 && w.R.Bool("seal-fault", 1, 12) {
		w.appendWithSealFault(n, pl, pc)
		return
	}
	if w.F.adderr && w.R.Bool("cancelled-ctx", 1, 14) {
		w.appendWithCancelledContext(n, pl, pc)
		return
	}
	e, err := n.Log.Append(w.ctx, pl, &ipfslog.AppendOptions{PointerCount: pc, Pin: pin})
	if err != nil {
		w.R.Violate(w.P.Prop+":append-error", "append on replica %d failed without any injected fault: %v", n.Idx, err)
	}
	me := w.register(e)
	w.R.Logf("append n%d pc=%d -> %s cid=%s t=%d next=%v refs=%v", n.Idx, pc, w.M.Name(me.Hash), me.Hash, me.Time,
		w.M.Names(sortedCopy(me.Next)), w.M.Names(me.Refs))
	if w.P.Check["C04"] {
		w.checkAppend(n, e, me, before, maxT, pc)
	}
	n.Set[me.Hash] = true
	w.afterAppend(n, e, me)
	w.recordPointer(n, 1, e.GetHash())
	if w.R.Bool("persist-hash", 1, 3) {
		n.Durable = &durablePtr{kind: 1, c: e.GetHash(), set: copySet(n.Set)}
	}
}

// doBurst: a replica appends a few dozen entries in a row - more than the default concurrency, more than a
// power of two or two of reference pointers, more than small examples ever hold - so that later merges, loads,
// iterations and cuts work on batches and histories beyond the sizes at which fast paths, pools and buffers
// change behaviour. At most twice per world (runs stay short).
func (w *World) doBurst() {
	n := w.pickUp("burst-node")
	k := 17 + w.R.Choose("burst-len", 40)
	pc := w.pointerCount()
	if n == nil || w.bursts >= 2 || !w.Big {
		return
	}
	w.bursts++
	for i := 0; i < k; i++ {
		before := w.M.Heads(n.Set)
		maxT := w.M.MaxTime(n.Set)
		e, err := n.Log.Append(w.ctx, w.payload(), &ipfslog.AppendOptions{PointerCount: pc})
		if err != nil {
			w.R.Violate(w.P.Prop+":append-error", "append %d of a burst on replica %d failed without any injected fault: %v", i, n.Idx, err)
		}
		me := w.register(e)
		if w.P.Check["C04"] {
			w.checkAppend(n, e, me, before, maxT, pc)
		}
		n.Set[me.Hash] = true
		w.recordPointer(n, 1, e.GetHash())
	}
	w.R.Probe("burst-of-appends")
	w.R.Logf("burst n%d: %d appends pc=%d, now |set|=%d", n.Idx, k, pc, len(n.Set))
}

// doFan: a wide fork. 9-24 logs are opened on a replica's current state (by the world's writers, each with a
// clock of its own so that no two of the new entries tie), each appends one entry, and the replica merges them
// all: it then has more heads than any small example, its next append names them all, traversals hold them
// all on their stack, and a load of it queues them all at once. Once per world.
func (w *World) doFan() {
	n := w.pickUp("fan-node")
	k := 9 + w.R.Choose("fan-width", 16)
	pc := w.pointerCount()
	if n == nil || w.fans >= 1 || w.Codec == "pb" || !w.Big {
		return
	}
	w.fans++
	base := w.M.MaxTime(n.Set)
	var clones []*ipfslog.IPFSLog
	for i := 0; i < k; i++ {
		wr := Writers()[i%len(Writers())] // (all identities there are: more distinct keys than small examples ever verify)
		o := w.logOpts()
		o.Entries = n.Log.GetEntries()
		o.Heads = n.Log.Heads().Slice()
		o.Clock = entry.NewLamportClock(wr.ID.PublicKey, base+1+i)
		c := w.newLog(wr, o)
		e, err := c.Append(w.ctx, w.payload(), &ipfslog.AppendOptions{PointerCount: pc})
		if err != nil {
			w.R.Violate(w.P.Prop+":append-error", "append on a log opened on replica %d's state failed without any injected fault: %v", n.Idx, err)
		}
		w.register(e)
		clones = append(clones, c)
	}
	for i, c := range clones {
		if _, err := n.Log.Join(c, -1); err != nil {
			w.R.Violate(w.P.Prop+":join-error", "merge %d of a wide fork into replica %d failed: %v", i, n.Idx, err)
		}
		for _, e := range liveSlice(c.GetEntries()) {
			n.Set[e.GetHash().String()] = true
		}
	}
	w.R.Probe("wide-fork-merged")
	w.R.Logf("fan n%d: %d branches merged, now |set|=%d heads=%d", n.Idx, k, len(n.Set), len(w.M.Heads(n.Set)))
}

// appendViaEntryAPI: the application (or another implementation of the protocol) builds the next entry
// itself - predecessors = the current heads, in an order of its own choosing, time = max+1 - and hands
// it to its log the way entries from elsewhere arrive: by merging a one-entry log.
func (w *World) appendViaEntryAPI(n *Node, pl []byte, heads []string, maxT int) {
	r := w.R
	order := append([]string(nil), heads...)
	for i := len(order) - 1; i > 0; i-- {
		j := r.Choose("next-order", i+1)
		order[i], order[j] = order[j], order[i]
	}
	var next []cid.Cid
	for _, h := range order {
		next = append(next, w.Cids[h])
	}
	t := maxT + 1
	if ct := n.Log.Clock.GetTime(); ct >= t {
		t = ct + 1
	}
	var tmpl iface.IPFSLogEntry = &entry.Entry{LogID: w.LogID, Payload: pl, Next: next, Refs: []cid.Cid{}, Clock: entry.NewLamportClock(n.W.ID.PublicKey, t)}
	if own := liveSlice(n.Log.GetEntries()); len(own) > 0 && r.Choose("derive-template", 3) == 0 {
		// the application makes the new entry out of one it has: a copy with payload, predecessors and clock replaced
		d := own[r.Choose("template-of", len(own))].Copy()
		d.SetPayload(pl)
		d.SetNext(next)
		d.SetRefs([]cid.Cid{})
		d.SetClock(entry.NewLamportClock(n.W.ID.PublicKey, t))
		tmpl = d
		r.Probe("appended-entry-derived-from-a-copy")
	}
	e, err := entry.CreateEntryWithIO(w.ctx, w.St, n.W.ID, tmpl, nil, w.IO)
	if err != nil {
		r.Violate(w.P.Prop+":create-entry", "CreateEntryWithIO failed for an entry on %d heads: %v", len(next), err)
	}
	// what the entry API acknowledged is in the store, under the identifier it returned
	if dec, err := entry.FromMultihashWithIO(w.ctx, w.St, e.GetHash(), n.W.ID.Provider, w.IO); err != nil {
		r.Violate(w.P.Prop+":acknowledged-lost-write", "the entry CreateEntryWithIO returned (payload %q, time %d) cannot be read from the store under its identifier: %v", pl, t, err)
	} else if d := fieldDiff(e, dec); d != "" {
		r.Violate(w.P.Prop+":acknowledged-other-content", "the block under the identifier CreateEntryWithIO returned (payload %q, time %d) holds another entry: differs in %s", pl, t, d)
	}
	me := w.register(e)
	o := w.logOpts()
	om := entry.NewOrderedMap()
	om.Set(me.Hash, e)
	o.Entries = om
	o.Heads = []iface.IPFSLogEntry{e}
	carrier := w.newLog(n.W, o)
	if _, err := n.Log.Join(carrier, -1); err != nil {
		r.Violate(w.P.Prop+":join-error", "merging an honest entry built through the entry API (predecessors: the current heads) failed: %v", err)
	}
	n.Set[me.Hash] = true
	r.Probe("entry-built-by-the-application-on-several-heads")
	r.Logf("append n%d via the entry API -> %s t=%d next=%v", n.Idx, w.M.Name(me.Hash), me.Time, w.M.Names(me.Next))
	w.afterAppend(n, e, me)
}

// twinsFor: entries of n's writer that n does not hold and that were appended on exactly the heads n has now.
func (w *World) twinsFor(n *Node) []*MEntry {
	myKey := hex.EncodeToString(n.W.ID.PublicKey)
	myHeads := joinS(w.M.Heads(n.Set))
	var twins []*MEntry
	for _, h := range w.M.Order {
		if me := w.M.Reg[h]; !n.Set[h] && me.ClockID == myKey && me.LogID == w.LogID && joinS(sortedCopy(me.Next)) == myHeads {
			twins = append(twins, me)
		}
	}
	return twins
}

func (w *World) checkAppend(n *Node, e iface.IPFSLogEntry, me *MEntry, before []string, maxT, pc int) {
	r := w.R
	nx := sortedCopy(me.Next)
	if joinS(nx) != joinS(before) {
		r.Violate("C04:next", "appended entry names %v as predecessors, heads were %v", w.M.Names(nx), w.M.Names(before))
	}
	if len(me.Next) != len(nx) || hasDup(me.Next) {
		r.Violate("C04:next", "duplicate predecessor in %v", w.M.Names(me.Next))
	}
	if me.ClockID != hex.EncodeToString(n.W.ID.PublicKey) {
		r.Violate("C04:clock-id", "clock id %s is not the writer's public key", me.ClockID)
	}
	if me.Time <= maxT {
		r.Violate("C04:clock-time", "appended entry has time %d, log already holds time %d", me.Time, maxT)
	}
	if !n.ClockAhead && me.Time != maxT+1 {
		r.Probe("append-time-gap")
	}
	hs := hashSeq(n.Log.Heads())
	if len(hs) != 1 || hs[0] != me.Hash {
		r.Violate("C04:single-head", "after append heads are %v, want just %s", w.M.Names(hs), w.M.Name(me.Hash))
	}
	past := w.M.Past(me.Hash)
	inNext := map[string]bool{}
	for _, x := range me.Next {
		inNext[x] = true
	}
	seen := map[string]bool{}
	for _, rf := range me.Refs {
		if !past[rf] {
			r.Violate("C04:refs", "reference %s is not in the causal past of the new entry", w.M.Name(rf))
		}
		if inNext[rf] {
			r.Violate("C04:refs", "reference %s is also a predecessor", w.M.Name(rf))
		}
		if seen[rf] {
			r.Violate("C04:refs", "duplicate reference %s", w.M.Name(rf))
		}
		seen[rf] = true
	}
	lg := 0
	for p := pc; p > 1; p >>= 1 {
		lg++
	}
	// "at most logarithmic in the requested pointer count": log2(p) picks, plus one for the
	// always-included oldest known entry when p exceeds the log; none at all for p <= 1
	bound := lg
	if pc > 1 {
		bound = lg + 1
	}
	if len(me.Refs) > bound {
		r.Violate("C04:refs", "%d references for pointer count %d (more than log2(p)%s)", len(me.Refs), pc, map[bool]string{true: "+1", false: ""}[pc > 1])
	}
	if len(me.Refs) > 0 {
		r.Probe("append-with-refs")
	}
	if len(before) > 1 {
		r.Probe("append-on-forked-log")
	}
}

func hasDup(xs []string) bool {
	s := map[string]bool{}
	for _, x := range xs {
		if s[x] {
			return true
		}
		s[x] = true
	}
	return false
}

func (w *World) blocked(a, b int) bool { return w.Parted && w.Part[a] != w.Part[b] }

func (w *World) doJoinLive() {
	a := w.pickUp("join-dst")
	b := w.pickUp("join-src")
	if a == nil || b == nil {
		return
	}
	if w.blocked(a.Idx, b.Idx) {
		w.R.Fault("partition-blocked")
		w.R.Logf("joinlive n%d<-n%d blocked by partition", a.Idx, b.Idx)
		return
	}
	w.R.Logf("joinlive n%d<-n%d", a.Idx, b.Idx)
	w.joinInto(a, b.Log, b.Set, "live")
}

// joinInto performs dst.Join(src) where src is expected to hold srcSet, and
// updates the model.
func (w *World) joinInto(dst *Node, src iface.IPFSLog, srcSet map[string]bool, what string) {
	if _, err := dst.Log.Join(src, -1); err != nil {
		w.R.Violate(w.P.Prop+":join-error", "unbounded merge (%s) of honest entries into replica %d failed: %v", what, dst.Idx, err)
	}
	union(dst.Set, srcSet)
}

func (w *World) doSend() {
	from := w.pickUp("send-from")
	toIdx := w.R.Choose("send-to", len(w.Nodes))
	form := w.R.Choose("send-form", 6)
	drop := w.F.drop && w.R.Bool("drop", 1, 8)
	if from == nil || toIdx == from.Idx {
		return
	}
	if len(from.Set) == 0 || w.Codec == "pb" || w.P.MemOnly {
		form = form % 2
	}
	m := &Msg{id: w.msgSeq, from: from.Idx, to: toIdx, form: form, set: copySet(from.Set)}
	w.msgSeq++
	switch form {
	case 0, 1:
		m.entries = from.Log.GetEntries()
		if form == 0 {
			m.heads = from.Log.Heads().Slice()
		}
	case 2:
		c, err := from.Log.ToMultihash(w.ctx)
		if err != nil {
			w.R.Violate(w.P.Prop+":publish-error", "ToMultihash on a non-empty log failed: %v", err)
		}
		m.c = c
	case 3:
		m.json = from.Log.ToJSONLog()
	case 4:
		m.heads = from.Log.Heads().Slice()
	case 5:
		hs := from.Log.Heads().Slice()
		if len(hs) == 1 {
			m.c = hs[0].GetHash()
		} else {
			m.form = 3
			m.json = from.Log.ToJSONLog()
		}
	}
	m.due = w.Now + int64(1+w.R.Choose("latency", 200))
	if drop {
		w.R.Fault("msg-drop")
		w.R.Logf("send m%d n%d->n%d form=%d DROPPED", m.id, m.from, m.to, m.form)
		return
	}
	w.R.Logf("send m%d n%d->n%d form=%d |set|=%d", m.id, m.from, m.to, m.form, len(m.set))
	w.Net = append(w.Net, m)
}

var formNames = [...]string{"clone+heads", "clone", "manifest", "json-heads", "head-entries", "entry-hash"}

// materialise rebuilds the sender's state at the receiver with the real
// constructors/loaders. Loads go through the fetch driver.
func (w *World) materialise(m *Msg, rcv *Writer) (*ipfslog.IPFSLog, error) {
	var l *ipfslog.IPFSLog
	var err error
	switch m.form {
	case 0, 1:
		o := w.logOpts()
		o.Entries = m.entries
		o.Heads = m.heads
		return ipfslog.NewLog(w.St, rcv.ID, o)
	}
	conc := w.R.Choose("load-conc", 6) // 0 = default
	w.driven(func(ctx context.Context) {
		switch m.form {
		case 2:
			l, err = ipfslog.NewFromMultihash(ctx, w.St, rcv.ID, m.c, w.loadOpts(), &ipfslog.FetchOptions{Concurrency: conc, ProgressChan: w.curProgress})
		case 3:
			l, err = ipfslog.NewFromJSON(ctx, w.St, rcv.ID, m.json, w.loadOpts(), w.fetchOpts(conc, nil, 0))
		case 4:
			l, err = ipfslog.NewFromEntry(ctx, w.St, rcv.ID, append([]iface.IPFSLogEntry(nil), m.heads...), w.loadOpts(), w.fetchOpts(conc, nil, 0))
		case 5:
			l, err = ipfslog.NewFromEntryHash(ctx, w.St, rcv.ID, m.c, w.loadOpts(), &ipfslog.FetchOptions{Concurrency: conc, ProgressChan: w.curProgress})
		}
	})
	return l, err
}

// driven runs a loader under the E2 fetch driver with a per-call policy.
func (w *World) driven(fn func(ctx context.Context)) *FetchDriver {
	d := &FetchDriver{R: w.R, St: w.St, Name: w.M.Name, HookBias: w.R.Choose("drv-bias", 3)}
	w.withProgress(d)
	defer func() { w.curProgress = nil }()
	ctx, cancel := context.WithCancel(w.ctx)
	defer cancel()
	d.Run(func() { fn(ctx) })
	w.R.Add("fetch-steps", int64(d.Steps))
	if d.MainSemBlocked > 0 {
		w.R.Probe("fetch-main-blocked-on-semaphore")
	}
	return d
}

// withProgress: in a third of the loads the application listens to the load's progress (an unbuffered
// FetchOptions.ProgressChan); the driver plays the listener.
func (w *World) withProgress(d *FetchDriver) {
	if w.R.Choose("progress-listener", 3) == 0 {
		d.Progress = make(chan iface.IPFSLogEntry)
		w.curProgress = d.Progress
		w.R.Probe("load-with-progress-listener")
	}
}

func (w *World) doDeliver() {
	var cand []*Msg
	for _, m := range w.Net {
		rn := w.Nodes[m.to]
		if rn.Up && rn.Stalled == 0 && !w.blocked(m.from, m.to) {
			cand = append(cand, m)
		}
	}
	if len(cand) == 0 {
		w.R.Choose("deliver-which", 1)
		return
	}
	k := w.R.Choose("deliver-which", len(cand))
	m := cand[k]
	if k > 0 {
		w.R.Fault("msg-reorder")
	}
	dup := w.F.dup && w.R.Bool("dup", 1, 5)
	if dup {
		w.R.Fault("msg-dup")
	} else {
		for i, x := range w.Net {
			if x == m {
				w.Net = append(w.Net[:i], w.Net[i+1:]...)
				break
			}
		}
	}
	rn := w.Nodes[m.to]
	if !setEq(m.set, w.Nodes[m.from].Set) || !w.Nodes[m.from].Up {
		w.R.Probe("stale-delivery")
	}
	w.R.Logf("deliver m%d n%d->n%d form=%s dup=%v", m.id, m.from, m.to, formNames[m.form], dup)
	tmp, err := w.materialise(m, rn.W)
	if err != nil {
		w.R.Violate(w.P.Prop+":load-error", "rebuilding message m%d (%s) failed with no fault injected: %v", m.id, formNames[m.form], err)
	}
	got := hashSet(tmp.GetEntries())
	if w.P.Check["C09"] && !setEq(got, m.set) {
		w.R.Violate("C09:reload-set", "state rebuilt from %s holds %d entries, sender held %d", formNames[m.form], len(got), len(m.set))
	}
	for h := range got {
		if _, ok := w.M.Reg[h]; !ok {
			w.R.Violate(w.P.Prop+":unknown-entry", "state rebuilt from %s contains entry %s, which no replica ever appended", formNames[m.form], h)
		}
	}
	w.joinInto(rn, tmp, got, formNames[m.form])
}

func (w *World) doPublish() {
	n := w.pickUp("publish-node")
	if n == nil || len(n.Set) == 0 {
		return
	}
	if w.P.Check["C17"] && w.F.adderr && w.R.Bool("add-error", 1, 8) {
		w.St.FailNextAdd("error")
		_, err := n.Log.ToMultihash(w.ctx)
		w.R.Logf("publish n%d with disk error -> err=%v", n.Idx, err != nil)
		if err == nil {
			w.R.Violate("C17:acknowledged-lost-write", "ToMultihash returned a manifest although the block write failed")
		}
		return
	}
	c, err := n.Log.ToMultihash(w.ctx)
	if err != nil {
		w.R.Violate(w.P.Prop+":publish-error", "ToMultihash on a non-empty log failed: %v", err)
	}
	n.Durable = &durablePtr{kind: 0, c: c, set: copySet(n.Set), json: n.Log.ToJSONLog(), heads: n.Log.Heads().Slice()}
	w.checkManifest(n, c)
	w.recordPointer(n, 0, c)
	w.R.Logf("publish n%d manifest=%s |set|=%d", n.Idx, c.String(), len(n.Set))
}

func (w *World) doCrash() {
	n := w.pickUp("crash-node")
	if n == nil || !w.F.crash {
		return
	}
	w.R.Fault("crash")
	w.R.Logf("crash n%d (durable=%v)", n.Idx, n.Durable != nil)
	n.Up = false
	n.Log = nil
	n.Stalled = 0
}

func (w *World) restart(n *Node) {
	n.Gen++
	n.Up = true
	n.ClockAhead = false
	if n.Durable == nil {
		n.Log = w.newLog(n.W, w.emptyLogOpts(n))
		n.Set = map[string]bool{}
		w.R.Logf("restart n%d empty", n.Idx)
		w.resetMonitor(n)
		return
	}
	var l *ipfslog.IPFSLog
	var err error
	conc := w.R.Choose("load-conc", 6)
	how := w.R.Choose("restart-loader", 3)
	w.driven(func(ctx context.Context) {
		if n.Durable.kind == 0 {
			switch {
			case how == 1 && n.Durable.json != nil && w.Codec != "pb":
				l, err = ipfslog.NewFromJSON(ctx, w.St, n.W.ID, n.Durable.json, w.nodeLoadOpts(n), w.fetchOpts(conc, nil, 0))
			case how == 2 && len(n.Durable.heads) > 0 && w.Codec != "pb":
				l, err = ipfslog.NewFromEntry(ctx, w.St, n.W.ID, append([]iface.IPFSLogEntry(nil), n.Durable.heads...), w.nodeLoadOpts(n), w.fetchOpts(conc, nil, 0))
			default:
				l, err = ipfslog.NewFromMultihash(ctx, w.St, n.W.ID, n.Durable.c, w.nodeLoadOpts(n), &ipfslog.FetchOptions{Concurrency: conc, ProgressChan: w.curProgress})
			}
		} else {
			l, err = ipfslog.NewFromEntryHash(ctx, w.St, n.W.ID, n.Durable.c, w.nodeLoadOpts(n), &ipfslog.FetchOptions{Concurrency: conc, ProgressChan: w.curProgress})
		}
	})
	if err != nil {
		w.R.Violate(w.P.Prop+":recover-error", "restart of replica %d from its durable pointer failed: %v", n.Idx, err)
	}
	got := hashSet(l.GetEntries())
	if (w.P.Check["C17"] || w.P.Check["C09"]) && !setEq(got, n.Durable.set) {
		w.R.Violate(w.P.Prop+":recover-set", "replica %d recovered %d entries from its durable pointer, it held %d when the pointer was returned", n.Idx, len(got), len(n.Durable.set))
	}
	n.Log = l
	n.Set = got
	w.R.Logf("restart n%d from %s |set|=%d", n.Idx, [...]string{"manifest", "entry-hash"}[n.Durable.kind], len(got))
	w.resetMonitor(n)
}

func (w *World) doRestart() {
	var down []*Node
	for _, n := range w.Nodes {
		if !n.Up {
			down = append(down, n)
		}
	}
	if len(down) == 0 {
		w.R.Choose("restart-node", 1)
		return
	}
	w.restart(down[w.R.Choose("restart-node", len(down))])
}

func (w *World) doPartition() {
	mask := w.R.Choose("partition-mask", 1<<uint(len(w.Nodes)))
	if !w.F.partition {
		return
	}
	for i := range w.Part {
		w.Part[i] = (mask >> uint(i)) & 1
	}
	w.Parted = true
	w.R.Fault("partition")
	w.R.Logf("partition %v", w.Part)
}

func (w *World) doHeal() {
	if w.Parted {
		w.R.Logf("heal")
	}
	w.Parted = false
}

func (w *World) doStall() {
	n := w.pickUp("stall-node")
	k := 1 + w.R.Choose("stall-len", 6)
	if n == nil || !w.F.stall {
		return
	}
	n.Stalled = k
	w.R.Fault("node-stall")
	w.R.Logf("stall n%d for %d steps", n.Idx, k)
}

func (w *World) doClockJump() {
	n := w.pickUp("clock-node")
	delta := 1 + w.R.Choose("clock-delta", 1000)
	if w.R.Choose("clock-huge", 4) == 0 {
		// clocks are plain integers chosen by (possibly remote) writers: any magnitude is legal
		delta = (1 << uint(30+w.R.Choose("clock-exp", 31))) + w.R.Choose("clock-low", 8)
	}
	if n == nil || !w.F.clockjump {
		return
	}
	cur := n.Log.Clock.GetTime()
	o := w.nodeOpts(n)
	o.Entries = n.Log.GetEntries()
	o.Heads = n.Log.Heads().Slice()
	// the start clock an application passes may carry any id (its own, a remote entry's, none): only its
	// time is a start value, the log's clock id is the writer's key
	clockID := [][]byte{n.W.ID.PublicKey, n.W.ID.PublicKey, Writers()[(n.Idx+1)%len(Writers())].ID.PublicKey, nil}[w.R.Choose("clock-id", 4)]
	o.Clock = entry.NewLamportClock(clockID, cur+delta)
	n.Log = w.newLog(n.W, o)
	n.Gen++
	n.ClockAhead = true
	w.resetMonitor(n)
	w.R.Fault("clock-jump")
	w.R.Logf("clockjump n%d +%d", n.Idx, delta)
}

func (w *World) doSetID() {
	n := w.pickUp("setid-node")
	k := w.R.Choose("setid-writer", len(Writers()))
	if n == nil {
		return
	}
	n.W = Writers()[k]
	n.Log.SetIdentity(n.W.ID)
	w.R.Logf("setidentity n%d -> %s", n.Idx, n.W.Name)
}

type obs struct {
	entries []string
	heads   []string
	jheads  []string
	values  []string
}

func (w *World) observe(l iface.IPFSLog) obs {
	var o obs
	o.entries = sortedKeys(hashSet(l.GetEntries()))
	o.heads = sortedCopy(hashSeq(l.Heads()))
	for _, c := range l.ToJSONLog().Heads {
		o.jheads = append(o.jheads, c.String())
	}
	sort.Strings(o.jheads)
	o.values = hashSeq(l.Values())
	return o
}

func (w *World) sameObs(a, b obs, strict bool) string {
	if joinS(a.entries) != joinS(b.entries) {
		return "entry sets differ"
	}
	if joinS(a.heads) != joinS(b.heads) {
		return fmt.Sprintf("heads differ: %v vs %v", w.M.Names(a.heads), w.M.Names(b.heads))
	}
	if joinS(a.jheads) != joinS(b.jheads) {
		return "manifest heads differ"
	}
	if strict && joinS(a.values) != joinS(b.values) {
		return fmt.Sprintf("values differ: %v vs %v", w.M.Names(a.values), w.M.Names(b.values))
	}
	if !strict && joinS(sortedCopy(a.values)) != joinS(sortedCopy(b.values)) {
		return "value sets differ"
	}
	return ""
}

func (w *World) ensureForeign() {
	if w.Foreign != nil {
		return
	}
	o := w.logOpts()
	o.ID = "F"
	w.Foreign = w.newLog(Writers()[5], o)
	for i := 0; i < 2; i++ {
		if _, err := w.Foreign.Append(w.ctx, []byte(fmt.Sprintf("foreign%d", i)), nil); err != nil {
			w.R.Harness("foreign append: %v", err)
		}
	}
}

// emptyClockIO: the default codec with a pre-signature step that empties the clock id - the public-API way to
// a genuinely signed entry of another implementation whose clock carries no id (the stored entry has the
// empty id, so the default codec verifies it as it stands).
type emptyClockIO struct{ *cbor.IOCbor }

func (l *emptyClockIO) PreSign(e iface.IPFSLogEntry) (iface.IPFSLogEntry, error) {
	e = e.Copy()
	e.SetClock(entry.NewLamportClock([]byte{}, e.GetClock().GetTime()))
	return e, nil
}

// foreignHeadScenario (scratch logs, nothing enters the world): a log whose first entry was written by another
// implementation with an empty clock id. Two writers open it from that entry, each appends, one merges the
// other: appended entries lie after the entry they name (C04), and the view only grows (C05).
func (w *World) foreignHeadScenario(a, b *Node) {
	r := w.R
	if b == nil || b == a {
		return
	}
	t0 := 2 + r.Choose("foreign-head-time", 60)
	g, err := entry.CreateEntryWithIO(w.ctx, w.St, Writers()[5].ID, &entry.Entry{LogID: "F", Payload: []byte("genesis"), Next: []cid.Cid{}, Refs: []cid.Cid{},
		Clock: entry.NewLamportClock(Writers()[5].ID.PublicKey, t0)}, nil, &emptyClockIO{defaultIO()})
	if err != nil || len(g.GetClock().GetID()) != 0 || g.Verify(a.W.ID.Provider, defaultIO()) != nil {
		return // (no such entry can be made this way: nothing to check)
	}
	r.Probe("log-opened-on-a-foreign-entry-with-empty-clock-id")
	open := func(wr *Writer) *ipfslog.IPFSLog {
		l, err := ipfslog.NewFromEntryHash(w.ctx, w.St, wr.ID, g.GetHash(), &ipfslog.LogOptions{ID: "F", SortFn: w.sortFn()}, &ipfslog.FetchOptions{})
		if err != nil {
			r.Violate(w.P.Prop+":load-error", "a log cannot be opened from a genuinely signed entry whose clock id is empty: %v", err)
		}
		return l
	}
	la, lb := open(a.W), open(b.W)
	for i, l := range []*ipfslog.IPFSLog{la, lb} {
		e, err := l.Append(w.ctx, []byte(fmt.Sprintf("f%d", i)), nil)
		if err != nil {
			r.Violate(w.P.Prop+":append-error", "append on a log opened from a foreign entry failed: %v", err)
		}
		if e.GetClock().GetTime() <= t0 {
			r.Violate("C04:clock-time", "entry appended on a log whose only entry has time %d (and an empty clock id) got time %d", t0, e.GetClock().GetTime())
		}
	}
	before := hashSeq(lb.Values())
	if _, err := lb.Join(la, -1); err != nil {
		r.Violate(w.P.Prop+":join-error", "merge of two logs opened from the same foreign entry failed: %v", err)
	}
	after := hashSeq(lb.Values())
	k := 0
	for _, h := range after {
		if k < len(before) && before[k] == h {
			k++
		}
	}
	if k != len(before) && a.W != b.W {
		r.Violate("C05:values-subsequence", "log opened from a foreign entry: the view %d entries long before a merge is not a subsequence of the view after it", len(before))
	}
}

func (w *World) doSpecial() {
	n := w.pickUp("special-node")
	kind := w.R.Choose("special-kind", 4)
	src := w.pickUp("special-src")
	if n == nil {
		return
	}
	if kind == 3 && (src == nil || src == n) {
		kind = 2
	}
	if (w.P.Check["C05"] || w.P.Check["C04"]) && w.Codec == "cbor" && w.LinkKeyBytes == nil && w.R.Choose("foreign-head", 3) == 0 {
		w.foreignHeadScenario(n, src)
		return
	}
	before := w.observe(n.Log)
	var err error
	switch kind {
	case 3:
		// a log object of ANOTHER id that holds entries of this log (an application that opened what it
		// received under its own name): merging "a log of a different id" changes nothing
		o := w.logOpts()
		o.ID = w.LogID + "-other"
		o.Entries = src.Log.GetEntries()
		o.Heads = src.Log.Heads().Slice()
		_, err = n.Log.Join(w.newLog(src.W, o), -1)
	case 0:
		_, err = n.Log.Join(n.Log, -1)
	case 1:
		_, err = n.Log.Join(w.newLog(Writers()[4], w.logOpts()), -1)
	case 2:
		w.ensureForeign()
		_, err = n.Log.Join(w.Foreign, -1)
	}
	w.R.Logf("special n%d kind=%s", n.Idx, [...]string{"self", "empty", "foreign-id", "other-id-same-entries"}[kind])
	if !w.P.Check["C01"] {
		return
	}
	if err != nil {
		w.R.Violate("C01:special-merge", "merging with %s returned %v", [...]string{"itself", "an empty log", "a log of a different id", "a log object of a different id (holding entries of this log)"}[kind], err)
	}
	_, strict := w.M.Linear(n.Set, w.ByHash)
	if d := w.sameObs(before, w.observe(n.Log), strict); d != "" {
		w.R.Violate("C01:special-merge", "merging with %s changed the log: %s", [...]string{"itself", "an empty log", "a log of a different id", "a log object of a different id (holding entries of this log)"}[kind], d)
	}
}

func (w *World) clone(n *Node, withHeads bool) *ipfslog.IPFSLog {
	o := w.logOpts()
	o.Entries = n.Log.GetEntries()
	if withHeads {
		o.Heads = n.Log.Heads().Slice()
	}
	return w.newLog(n.W, o)
}

// doAlgebra: commutativity / associativity / idempotence on scratch clones of reached states.
func (w *World) doAlgebra() {
	a, b, c := w.pickUp("alg-a"), w.pickUp("alg-b"), w.pickUp("alg-c")
	kind := w.R.Choose("alg-kind", 3)
	if a == nil || b == nil || c == nil || !w.P.Check["C01"] {
		return
	}
	mustJoin := func(x *ipfslog.IPFSLog, y iface.IPFSLog) {
		if _, err := x.Join(y, -1); err != nil {
			w.R.Violate("C01:join-error", "merge of honest clones failed: %v", err)
		}
	}
	w.R.Logf("algebra kind=%d n%d n%d n%d", kind, a.Idx, b.Idx, c.Idx)
	switch kind {
	case 0: // commutative
		x, y := w.clone(a, true), w.clone(b, true)
		mustJoin(x, w.clone(b, true))
		mustJoin(y, w.clone(a, true))
		u := copySet(a.Set)
		union(u, b.Set)
		_, strict := w.M.Linear(u, w.ByHash)
		if d := w.sameObs(w.observe(x), w.observe(y), strict); d != "" {
			w.R.Violate("C01:commutative", "a+b vs b+a: %s", d)
		}
	case 1: // associative
		x := w.clone(a, true)
		mustJoin(x, w.clone(b, true))
		mustJoin(x, w.clone(c, true))
		y := w.clone(b, true)
		mustJoin(y, w.clone(c, true))
		z := w.clone(a, true)
		mustJoin(z, y)
		u := copySet(a.Set)
		union(u, b.Set)
		union(u, c.Set)
		_, strict := w.M.Linear(u, w.ByHash)
		if d := w.sameObs(w.observe(x), w.observe(z), strict); d != "" {
			w.R.Violate("C01:associative", "(a+b)+c vs a+(b+c): %s", d)
		}
	case 2: // idempotent
		x := w.clone(a, true)
		before := w.observe(x)
		mustJoin(x, w.clone(a, false))
		mustJoin(x, w.clone(a, true))
		_, strict := w.M.Linear(a.Set, w.ByHash)
		if d := w.sameObs(before, w.observe(x), strict); d != "" {
			w.R.Violate("C01:idempotent", "a+a vs a: %s", d)
		}
	}
}

// ---------------------------------------------------------------- oracles

func (w *World) resetMonitor(n *Node) {
	n.seen = map[string]string{}
	n.prevVals = nil
	n.prevLen = 0
}

func fingerprint(e iface.IPFSLogEntry) string {
	var b strings.Builder
	fmt.Fprintf(&b, "p=%x|id=%s|v=%d|k=%x|s=%x|h=%s|", e.GetPayload(), e.GetLogID(), e.GetV(), e.GetKey(), e.GetSig(), e.GetHash().String())
	for _, c := range e.GetNext() {
		fmt.Fprintf(&b, "n=%s,", c.String())
	}
	for _, c := range e.GetRefs() {
		fmt.Fprintf(&b, "r=%s,", c.String())
	}
	if c := e.GetClock(); c != nil {
		fmt.Fprintf(&b, "|c=%x/%d", c.GetID(), c.GetTime())
	}
	if id := e.GetIdentity(); id != nil {
		fmt.Fprintf(&b, "|i=%s/%x/%s", id.ID, id.PublicKey, id.Type)
		if id.Signatures != nil {
			fmt.Fprintf(&b, "/%x/%x", id.Signatures.ID, id.Signatures.PublicKey)
		}
	}
	ad := e.GetAdditionalData()
	var ks []string
	for k := range ad {
		ks = append(ks, k)
	}
	sort.Strings(ks)
	for _, k := range ks {
		fmt.Fprintf(&b, "|a:%s=%s", k, ad[k])
	}
	return b.String()
}

func isSubsequence(small, big []string) bool {
	i := 0
	for _, x := range big {
		if i < len(small) && small[i] == x {
			i++
		}
	}
	return i == len(small)
}

func (w *World) checkNode(n *Node) {
	r := w.R
	m := w.M
	l := n.Log
	chk := w.P.Check
	entries := l.GetEntries()
	got := sortedKeys(hashSet(entries))
	want := sortedKeys(n.Set)
	if joinS(got) != joinS(want) {
		r.Violate(w.P.Prop+":entries", "replica %d holds %d entries, the merged set has %d (missing %v, extra %v)", n.Idx, len(got), len(want),
			m.Names(diff(want, got)), m.Names(diff(got, want)))
	}
	heads := sortedCopy(hashSeq(l.Heads()))
	mheads := m.Heads(n.Set)
	lin, strict := m.Linear(n.Set, w.ByHash)
	vals := hashSeq(l.Values())
	if chk["C02"] {
		if joinS(heads) != joinS(mheads) {
			r.Violate("C02:heads", "replica %d Heads()=%v, unreferenced entries are %v", n.Idx, m.Names(heads), m.Names(mheads))
		}
		raw := sortedKeys(hashSet(l.RawHeads()))
		if joinS(raw) != joinS(mheads) {
			r.Violate("C02:raw-heads", "replica %d RawHeads()=%v, unreferenced entries are %v", n.Idx, m.Names(raw), m.Names(mheads))
		}
		var sh []string
		for _, c := range l.ToSnapshot().Heads {
			sh = append(sh, c.String())
		}
		sort.Strings(sh)
		if joinS(sh) != joinS(mheads) {
			r.Violate("C02:snapshot-heads", "replica %d snapshot heads=%v, unreferenced entries are %v", n.Idx, m.Names(sh), m.Names(mheads))
		}
		if (len(heads) == 0) != (len(n.Set) == 0) {
			r.Violate("C02:nonempty", "replica %d has %d entries and %d heads", n.Idx, len(n.Set), len(heads))
		}
		for _, h := range heads {
			c := w.Cids[h]
			if e, ok := l.Get(c); !ok || e == nil || !l.Has(c) {
				r.Violate("C02:head-is-entry", "head %s of replica %d is not retrievable from the log", m.Name(h), n.Idx)
			}
		}
		if len(mheads) > 1 {
			r.Probe("multi-head-state")
		}
	}
	if chk["C03"] {
		w.checkValues(n, "Values()", vals, lin, strict)
		snap := l.ToSnapshot()
		var sv []string
		for _, e := range snap.Values {
			sv = append(sv, e.GetHash().String())
		}
		w.checkValues(n, "ToSnapshot().Values", sv, lin, strict)
		if !w.PayloadBin && w.step%3 == 0 && len(vals) <= 24 { // (ToString costs the library cubic time in the number of entries)
			w.checkToString(n, vals)
		}
	}
	if chk["C05"] {
		for h, fp := range n.seen {
			e, ok := l.Get(w.Cids[h])
			if !ok || e == nil {
				r.Violate("C05:vanished", "entry %s was in replica %d and is no longer retrievable", m.Name(h), n.Idx)
			}
			if f := fingerprint(e); f != fp {
				r.Violate("C05:mutated", "entry %s held by replica %d changed: was %s now %s", m.Name(h), n.Idx, fp, f)
			}
		}
		for _, k := range entries.Keys() {
			if _, ok := n.seen[k]; !ok {
				n.seen[k] = fingerprint(entries.UnsafeGet(k))
			}
		}
		if strict && !isSubsequence(n.prevVals, vals) {
			r.Violate("C05:values-subsequence", "replica %d: previous linearised view is not a subsequence of the new one", n.Idx)
		}
		if l.Len() < n.prevLen {
			r.Violate("C05:len", "replica %d: entry count went from %d to %d", n.Idx, n.prevLen, l.Len())
		}
		n.prevVals = vals
		n.prevLen = l.Len()
	}
	state := fmt.Sprintf("  n%d |set|=%d heads=%v", n.Idx, len(n.Set), m.Names(mheads))
	if strict {
		state += fmt.Sprintf(" values=%v", m.Names(vals))
	}
	r.Logf("%s", state)
}

func diff(a, b []string) []string {
	in := map[string]bool{}
	for _, x := range b {
		in[x] = true
	}
	var out []string
	for _, x := range a {
		if !in[x] {
			out = append(out, x)
		}
	}
	return out
}

func (w *World) checkValues(n *Node, what string, vals, lin []string, strict bool) {
	r := w.R
	m := w.M
	pos := map[string]int{}
	for i, h := range vals {
		if _, dup := pos[h]; dup {
			r.Violate("C03:duplicate", "replica %d %s lists %s twice", n.Idx, what, m.Name(h))
		}
		pos[h] = i
	}
	if len(vals) != len(lin) || joinS(sortedCopy(vals)) != joinS(sortedCopy(lin)) {
		r.Violate("C03:complete", "replica %d %s has %d entries, the log holds %d", n.Idx, what, len(vals), len(lin))
	}
	for _, h := range vals {
		for _, nx := range m.Reg[h].Next {
			if p, ok := pos[nx]; ok && p > pos[h] {
				r.Violate("C03:causal", "replica %d %s places %s before its predecessor %s", n.Idx, what, m.Name(h), m.Name(nx))
			}
		}
	}
	if strict {
		if joinS(vals) != joinS(lin) {
			r.Violate("C03:sorted", "replica %d %s = %v, sorted order is %v", n.Idx, what, m.Names(vals), m.Names(lin))
		}
	} else {
		r.Probe("comparator-ties")
		for i := 1; i < len(vals); i++ {
			a, b := m.Reg[vals[i-1]], m.Reg[vals[i]]
			if a.Time > b.Time || (a.Time == b.Time && a.ClockID > b.ClockID) {
				r.Violate("C03:sorted", "replica %d %s not ordered by (time, id) at position %d", n.Idx, what, i)
			}
		}
	}
}

func (w *World) checkToString(n *Node, vals []string) {
	s := n.Log.ToString(nil)
	var got []string
	if s != "" {
		for _, line := range strings.Split(s, "\n") {
			line = strings.TrimLeft(line, " ")
			line = strings.TrimPrefix(line, "└─")
			got = append(got, line)
		}
	}
	var want []string
	for i := len(vals) - 1; i >= 0; i-- {
		want = append(want, w.M.Reg[vals[i]].Payload)
	}
	if joinS(got) != joinS(want) {
		w.R.Violate("C03:tostring", "replica %d ToString lists payloads %v, values reversed are %v", n.Idx, got, want)
	}
}

func (w *World) checkPairs() {
	if !w.P.Check["C01"] {
		return
	}
	ups := []*Node{}
	for _, n := range w.Nodes {
		if n.Up {
			ups = append(ups, n)
		}
	}
	cache := map[int]obs{}
	get := func(n *Node) obs {
		if o, ok := cache[n.Idx]; ok {
			return o
		}
		o := w.observe(n.Log)
		cache[n.Idx] = o
		return o
	}
	for i := 0; i < len(ups); i++ {
		for j := i + 1; j < len(ups); j++ {
			a, b := ups[i], ups[j]
			if !setEq(a.Set, b.Set) {
				continue
			}
			if len(a.Set) > 0 {
				w.R.Probe("equal-set-pair")
			}
			_, strict := w.M.Linear(a.Set, w.ByHash)
			if !strict {
				w.R.Probe("comparator-ties") // (only order-independent facts are compared then)
			}
			if d := w.sameObs(get(a), get(b), strict); d != "" {
				w.R.Violate("C01:converge", "replicas %d and %d merged the same %d entries but %s", a.Idx, b.Idx, len(a.Set), d)
			}
		}
	}
}

func (w *World) afterEvent() {
	for _, n := range w.Nodes {
		if n.Up {
			w.checkNode(n)
		}
	}
	w.checkPairs()
}

// healAndConverge: faults stop, everything restarts, anti-entropy must converge
// within N rounds (bounded liveness).
func (w *World) healAndConverge() {
	w.R.Logf("heal-and-converge")
	w.Parted = false
	for _, n := range w.Nodes {
		n.Stalled = 0
		if !n.Up {
			w.restart(n)
		}
	}
	w.Net = nil
	N := len(w.Nodes)
	target := map[string]bool{}
	for _, n := range w.Nodes {
		union(target, n.Set)
	}
	for round := 1; round <= N; round++ {
		var pairs [][2]int
		for i := 0; i < N; i++ {
			for j := 0; j < N; j++ {
				if i != j {
					pairs = append(pairs, [2]int{i, j})
				}
			}
		}
		for len(pairs) > 0 {
			k := w.R.Choose("ae-pair", len(pairs))
			p := pairs[k]
			pairs = append(pairs[:k], pairs[k+1:]...)
			a, b := w.Nodes[p[0]], w.Nodes[p[1]]
			w.joinInto(a, b.Log, b.Set, "anti-entropy")
		}
		w.afterEvent()
		all := true
		for _, n := range w.Nodes {
			if !setEq(n.Set, target) {
				all = false
			}
		}
		if all {
			w.R.Logf("converged after %d round(s) on %d entries", round, len(target))
			w.R.Add("converge-rounds", int64(round))
			return
		}
	}
	w.R.Violate("C01:liveness", "replicas did not converge within %d anti-entropy rounds after faults stopped", N)
}

// BuildWorld creates a world and runs its event loop (oracles after every event).
func BuildWorld(r *Run, p *Profile) *World {
	w := NewWorld(r, p)
	for w.step = 0; w.step < p.MaxSteps; w.step++ {
		r.T.Mark()
		op := w.pickOp()
		if op == opEnd {
			break
		}
		w.Now += int64(1 + r.Choose("dt", 50))
		for _, n := range w.Nodes {
			if n.Stalled > 0 {
				n.Stalled--
			}
		}
		r.Count("op:" + opNames[op])
		w.dispatch(op)
		w.afterEvent()
	}
	r.T.Mark()
	r.Add("events", int64(w.step))
	return w
}

// RunE0 is the generic replica-world run used by several properties.
func RunE0(r *Run, p *Profile) {
	w := BuildWorld(r, p)
	if p.Check["C01"] || p.Check["C17"] {
		w.healAndConverge()
	}
	w.finish()
	r.SimNS = w.Now * 1e6
}

func (w *World) dispatch(op int) {
	switch op {
	case opAppend:
		w.doAppend()
	case opJoinLive:
		w.doJoinLive()
	case opSend:
		w.doSend()
	case opDeliver:
		w.doDeliver()
	case opPublish:
		w.doPublish()
	case opCrash:
		w.doCrash()
	case opRestart:
		w.doRestart()
	case opPartition:
		w.doPartition()
	case opHeal:
		w.doHeal()
	case opClockJump:
		w.doClockJump()
	case opSpecial:
		w.doSpecial()
	case opSetID:
		w.doSetID()
	case opAlgebra:
		w.doAlgebra()
	case opStall:
		w.doStall()
	case opCrashAll:
		w.doCrashAll()
	case opRefused:
		w.doRefused()
	case opRawEntry:
		w.doRawEntry()
	case opRebuild:
		w.doRebuild()
	case opPartial:
		w.doPartial()
	case opBurst:
		w.doBurst()
	case opFan:
		w.doFan()
	default:
		w.dispatchExt(op)
	}
}

var _ accesscontroller.Interface = (*accesscontroller.Default)(nil)
