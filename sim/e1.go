package sim

// E1: controlled interleaving of goroutines on shared logs. Tasks are real
// goroutines but exactly one is ever runnable: a task parks by a blocking read(2)
// on its own pipe and is released by a write(2) from the scheduler. Pipe syscalls
// issued from //go:norace functions create no happens-before edge in the race
// detector, so it keeps seeing exactly the synchronisation the library performs,
// while the execution is one deterministic total order chosen by the tape.

import (
	"context"
	"fmt"
	"runtime"
	"runtime/debug"
	"strings"
	"sync"
	"syscall"
	"time"
	"unsafe"

	ipfslog "berty.tech/go-ipfs-log"
	"berty.tech/go-ipfs-log/entry"
	idp "berty.tech/go-ipfs-log/identityprovider"
	"berty.tech/go-ipfs-log/iface"
	ipld "github.com/ipfs/go-ipld-format"
	"github.com/libp2p/go-libp2p/core/crypto"
)

type gate struct{ r, w int }

func newGate() *gate {
	var p [2]int
	if err := syscall.Pipe(p[:]); err != nil {
		panic(&harnessError{"pipe: " + err.Error()})
	}
	return &gate{p[0], p[1]}
}

func (g *gate) close() { syscall.Close(g.r); syscall.Close(g.w) }

//go:norace
func (g *gate) wait() {
	var b [1]byte
	for {
		n, _, e := syscall.Syscall(syscall.SYS_READ, uintptr(g.r), uintptr(unsafe.Pointer(&b[0])), 1)
		if e == syscall.EINTR {
			continue
		}
		if n == 1 {
			return
		}
		panic(e)
	}
}

//go:norace
func (g *gate) signal() {
	b := [1]byte{1}
	for {
		n, _, e := syscall.Syscall(syscall.SYS_WRITE, uintptr(g.w), uintptr(unsafe.Pointer(&b[0])), 1)
		if e == syscall.EINTR {
			continue
		}
		if n == 1 {
			return
		}
		panic(e)
	}
}

// waitTimeout waits for a signal for at most ms milliseconds.
//
//go:norace
func (g *gate) waitTimeout(ms int) bool { return g.waitTimeoutUs(ms * 1000) }

//go:norace
func (g *gate) waitTimeoutUs(us int) bool {
	type pollfd struct {
		fd      int32
		events  int16
		revents int16
	}
	for {
		p := pollfd{fd: int32(g.r), events: 1} // POLLIN
		ts := syscall.Timespec{Sec: int64(us / 1000000), Nsec: int64(us%1000000) * 1e3}
		n, _, e := syscall.Syscall6(syscall.SYS_PPOLL, uintptr(unsafe.Pointer(&p)), 1, uintptr(unsafe.Pointer(&ts)), 0, 0, 0)
		if e == syscall.EINTR {
			continue
		}
		if e != 0 {
			panic(e)
		}
		if n == 0 {
			return false
		}
		g.wait()
		return true
	}
}

// taskBlockedForGood: the goroutine of the running task is blocked (not at a hook: it has not come back to
// the scheduler) and no goroutine executing library code is running, runnable or sleeping - nothing is left
// that could wake it. Returns a description of where it is blocked.
//
//go:norace
func taskBlockedForGood(goid int64) (string, bool) {
	n := runtime.Stack(stackBuf, true)
	for n == len(stackBuf) {
		stackBuf = make([]byte, 2*len(stackBuf))
		n = runtime.Stack(stackBuf, true)
	}
	active := func(st string) bool {
		return st == "running" || st == "runnable" || st == "syscall" || st == "sleep" || st == "IO wait"
	}
	where, blocked := "", false
	for _, g := range parseStacks(stackBuf[:n]) {
		lib := ""
		for _, f := range g.frames {
			if strings.HasPrefix(f, "berty.tech/go-ipfs-log") {
				lib = f
				break
			}
		}
		if g.id == goid {
			if active(g.state) {
				return "", false
			}
			blocked = true
			if i := strings.LastIndex(lib, "("); i > 0 {
				lib = lib[:i]
			}
			where = fmt.Sprintf("%s (goroutine state: %s)", lib, g.state)
			continue
		}
		if lib != "" && active(g.state) && !hasFrame(g, "sim.(*gate).wait") { // (tasks parked at a hook sit in a pipe read)
			return "", false
		}
	}
	return where, blocked
}

// rwLayout mirrors sync.RWMutex (go1.18 .. go1.26): the scheduler only *looks* at a lock. Probing it with
// TryLock/Unlock would add acquire/release edges the race detector sees - edges the library itself
// does not make (a method that takes the read lock where its hook announces the write lock would be
// ordered against every other reader by the probe alone).
type rwLayout struct {
	wState      int32
	wSema       uint32
	writerSem   uint32
	readerSem   uint32
	readerCount int32
	readerWait  int32
}

var rwLayoutOK = func() bool {
	if unsafe.Sizeof(sync.RWMutex{}) != unsafe.Sizeof(rwLayout{}) {
		return false
	}
	var m sync.RWMutex
	l := (*rwLayout)(unsafe.Pointer(&m))
	if l.wState != 0 || l.readerCount != 0 {
		return false
	}
	m.RLock()
	if l.readerCount != 1 || l.wState&1 != 0 {
		return false
	}
	m.RUnlock()
	m.Lock()
	held := l.wState&1 == 1 && l.readerCount < 0
	m.Unlock()
	return held && l.wState&1 == 0 && l.readerCount == 0
}()

// rwFree: could the lock be taken right now (for writing / for reading)? Called while every other task is
// parked, so the answer is stable. Falls back to TryLock probing if the layout self-test failed.
//
//go:norace
func rwFree(mu *sync.RWMutex, write bool) bool {
	if !rwLayoutOK {
		if write {
			if mu.TryLock() {
				mu.Unlock()
				return true
			}
			return false
		}
		if mu.TryRLock() {
			mu.RUnlock()
			return true
		}
		return false
	}
	l := (*rwLayout)(unsafe.Pointer(mu))
	// plain loads: an atomic load would be one more edge for the race detector; every other task is parked
	rc := l.readerCount
	if write {
		return l.wState&1 == 0 && rc == 0
	}
	return rc >= 0
}

const (
	stReady = iota
	stWantLock
	stDone
	stWantRecv // a consumer asks for the next element of a stream
	stChanSend // a producer is parked inside the library, sending an element its consumer has not taken yet
)

// stream: the channel of one streaming Iterator call. The library sends on it from the producer task;
// nothing in the library announces that send, so the scheduler finds the producer parked in it by looking
// at its goroutine. Receives are performed by the scheduler itself on behalf of the consumer task, with
// the producer made the running task first: at any moment one task runs, as everywhere in this engine.
type stream struct {
	ch       chan iface.IPFSLogEntry
	prod     *task
	finished bool // the producer's Iterator call has returned (or its task was unwound)
}

//go:norace
func streamBegin(t *task, st *stream) { st.prod = t; t.out = st; t.streaming = true }

//go:norace
func streamEnd(t *task, st *stream) { t.streaming = false; st.finished = true }

// e1Recv: the consumer's receive. ok=false: the stream is over (closed, or given up by its producer).
//
//go:norace
func e1Recv(st *stream) (iface.IPFSLogEntry, bool) {
	t := curTask()
	if t == nil {
		panic(&harnessError{"e1Recv outside a task"})
	}
	t.state = stWantRecv
	t.site = "recv"
	t.stream = st
	S.back.signal()
	t.g.wait()
	if t.abort {
		runtime.Goexit()
	}
	// the entry itself travels over a real channel: whoever receives from a Go channel is ordered after the
	// send, and the race detector must see the consumer ordered after the producer exactly as it would be
	// had it received from the stream with its own hands
	it := <-t.recvCh
	return it.v, it.ok
}

type recvItem struct {
	v  iface.IPFSLogEntry
	ok bool
}

//go:norace
func (s *sched) recvReady(t *task) bool {
	st := t.stream
	return len(st.ch) > 0 || st.finished || (st.prod != nil && st.prod.state == stChanSend)
}

// taskInChanSend: the goroutine of the task is parked in a channel send below IPFSLog.Iterator.
//
//go:norace
func taskInChanSend(goid int64) bool {
	n := runtime.Stack(stackBuf, true)
	for n == len(stackBuf) {
		stackBuf = make([]byte, 2*len(stackBuf))
		n = runtime.Stack(stackBuf, true)
	}
	for _, g := range parseStacks(stackBuf[:n]) {
		if g.id == goid {
			return g.state == "chan send" && hasFrame(g, "go-ipfs-log.(*IPFSLog).Iterator")
		}
	}
	return false
}

type task struct {
	id        int
	g         *gate
	goid      int64
	state     int
	site      string
	mu        *sync.RWMutex
	w         bool
	failedAt  int
	fn        func(t *task)
	abort     bool
	pending   bool // has asked for its lock and not got it yet
	pan       *fetchPanic
	prio      int
	stuck     bool    // blocked for good inside the library (verdict reached; its goroutine is abandoned)
	streaming bool    // inside a streaming Iterator call
	stream    *stream // consumer: the stream it receives from
	out       *stream // producer: the stream it last sent on
	recvCh    chan recvItem
	// task-local results
	ops     []*opRec
	blocks  []ipld.Node
	blockAt []int // stamp of each block write (parallel to blocks)
	name    string
}

type sched struct {
	r         *Run
	tasks     []*task
	cur       *task
	back      *gate
	epoch     int
	clock     int // global step counter: stamps invoke/return
	deadlock  bool
	deadMsg   string
	wg        sync.WaitGroup
	policy    int // 0 uniform, 1 PCT priorities, 2 round-robin with pre-emptions
	changeAt  []int
	lastIdx   int
	preempts  int
	lockWaits int
	lockNames map[*sync.RWMutex]string
	fine      bool // also yield at the entry index' own lock
	grace     int
}

// S is the active scheduler; touched only from //go:norace code while tasks run.
var S *sched

func init() {
	ipfslog.VerifHook.BeforeLock = e1BeforeLock
	ipfslog.VerifHook.Yield = e1Yield
	entry.VerifBeforeLock = e1MapBeforeLock
	e1AddHook = e1Add
}

//go:norace
func curTask() *task {
	s := S
	if s == nil {
		return nil
	}
	// read once: library goroutines that are not tasks (Join's verification workers) call the hooks
	// concurrently with the scheduler, which changes s.cur
	c := s.cur
	if c == nil || c.goid != goid() {
		return nil
	}
	return c
}

//go:norace
func e1Yield(site string) {
	t := curTask()
	if t == nil {
		return
	}
	e1SnapHook(site)
	t.state = stReady
	t.site = site
	S.back.signal()
	t.g.wait()
	if t.abort {
		runtime.Goexit()
	}
}

// e1MapBeforeLock: scheduling points at the OrderedMap's own lock (fine-grained runs only: they make
// schedules an order of magnitude longer, so only a third of the runs use them).
//
//go:norace
func e1MapBeforeLock(mu *sync.RWMutex, write bool, site string) {
	s := S
	if s == nil || !s.fine {
		return
	}
	e1BeforeLock(mu, write, site)
}

//go:norace
func e1BeforeLock(mu *sync.RWMutex, write bool, site string) {
	t := curTask()
	if t == nil {
		return
	}
	for {
		t.state = stWantLock
		t.site = site
		t.mu = mu
		t.w = write
		S.back.signal()
		t.g.wait()
		if t.abort {
			runtime.Goexit()
		}
		ok := false
		if write {
			ok = rwFree(mu, true)
		} else if !S.writerPending(mu, t) {
			// Go's RWMutex makes new readers wait once a writer is blocked in Lock(): a reader that
			// re-enters RLock behind a pending writer deadlocks, and so it must here
			ok = rwFree(mu, false)
		}
		if ok {
			t.failedAt = -1
			t.pending = false
			return
		}
		t.failedAt = S.epoch
		t.pending = true
	}
}

// e1Add: the block sink of E1. Blocks go to a task-local list: no memory is shared
// between tasks and no TSan-visible synchronisation is added.
//
//go:norace
func e1Add(n ipld.Node) (bool, error) {
	if S == nil {
		return false, nil
	}
	t := curTask()
	if t == nil {
		return true, nil
	}
	e1Yield("store.Add")
	if tc := taskCtxs[t]; tc != nil && tc.cur != nil && tc.cur.d.failAdd {
		return true, errInjected
	}
	t.blocks = append(t.blocks, n)
	t.blockAt = append(t.blockAt, S.now())
	return true, nil
}

//go:norace
func (s *sched) now() int { s.clock++; return s.clock }

func sleepReal() { time.Sleep(2 * time.Millisecond) }

// writerPending: another task has called Lock() on mu and is still waiting for it.
//
//go:norace
func (s *sched) writerPending(mu *sync.RWMutex, self *task) bool {
	for _, t := range s.tasks {
		if t != self && t.state == stWantLock && t.w && t.mu == mu && t.pending {
			return true
		}
	}
	return false
}

//go:norace
func (s *sched) lockName(mu *sync.RWMutex) string {
	if n, ok := s.lockNames[mu]; ok {
		return n
	}
	return "an entry index lock"
}

//go:norace
func (s *sched) pick(el []*task) *task {
	r := s.r
	switch s.policy {
	case 1: // PCT: highest priority runs; priorities change at a few random steps
		top := func() *task {
			best := el[0]
			for _, t := range el[1:] {
				if t.prio > best.prio {
					best = t
				}
			}
			return best
		}
		for _, c := range s.changeAt {
			if c == s.epoch {
				// the classic change point demotes the task that would run now (it is parked right where it
				// stands while the others run on); sometimes demote an arbitrary one instead
				if k := r.Choose("pct-demote", len(el)+2); k < len(el) {
					el[k].prio = -s.epoch
				} else {
					top().prio = -s.epoch
				}
			}
		}
		return top()
	case 2: // keep running the same task, pre-empt with probability 1/4
		for _, t := range el {
			if t.id == s.lastIdx && r.Choose("preempt?", 4) != 0 {
				return t
			}
		}
		return el[r.Choose("sched", len(el))]
	}
	return el[r.Choose("sched", len(el))]
}

//go:norace
func (s *sched) run() {
	for _, t := range s.tasks {
		t := t
		t.failedAt = -1
		started := newGate()
		s.wg.Add(1)
		go func() {
			defer func() {
				if !t.stuck {
					s.wg.Done()
				}
			}()
			defer func() {
				// runs on normal return, on Goexit (abort) and on panic
				if x := recover(); x != nil {
					t.pan = &fetchPanic{x, string(debug.Stack())}
				}
				e1TaskDone(t)
			}()
			t.goid = goid()
			started.signal()
			t.g.wait()
			if t.abort {
				return
			}
			t.fn(t)
		}()
		started.wait()
		started.close()
	}
	for {
		var el []*task
		live := 0
		for _, t := range s.tasks {
			if t.state == stDone {
				continue
			}
			live++
			if t.state == stWantLock && t.failedAt == s.epoch {
				continue
			}
			if t.state == stChanSend || (t.state == stWantRecv && !s.recvReady(t)) {
				continue // (a parked producer moves on only through its consumer's receive)
			}
			el = append(el, t)
		}
		if live == 0 {
			return
		}
		if len(el) == 0 {
			// Before calling it a deadlock, give goroutines that are not tasks (verification workers that
			// outlived their Join, in a defective library) a moment to let go of whatever they hold: the
			// polling rule is exact only when tasks are the only lock holders. Real time is used for this
			// grace period alone; with no stray goroutine the outcome does not depend on it.
			if s.grace < 20 {
				s.grace++
				sleepReal()
				s.epoch++
				continue
			}
			s.deadlock = true
			msg := ""
			for _, t := range s.tasks {
				switch t.state {
				case stDone:
				case stChanSend:
					msg += fmt.Sprintf("%s is inside Iterator, waiting for its consumer to take the next entry; ", t.name)
				case stWantRecv:
					msg += fmt.Sprintf("%s waits for the next entry of the stream; ", t.name)
				default:
					msg += fmt.Sprintf("%s waits for %s(%s,write=%v); ", t.name, s.lockName(t.mu), t.site, t.w)
				}
			}
			s.deadMsg = msg
			s.releaseAll()
			return
		}
		t := s.pick(el)
		if len(el) > 1 {
			s.r.Nontrivial()
			if t.id != s.lastIdx {
				s.preempts++
			}
		}
		s.lastIdx = t.id
		if t.state == stWantRecv {
			// the receive, done here on behalf of the consumer; a producer parked in the send runs on from it
			st := t.stream
			p := st.prod
			wake := p != nil && p.state == stChanSend
			if wake {
				p.state = stReady
				s.cur = p
			}
			select {
			case v, ok := <-st.ch:
				t.recvCh <- recvItem{v, ok}
			default:
				t.recvCh <- recvItem{nil, false}
			}
			if wake {
				if !s.await(p) {
					return
				}
				s.cur = nil
				s.r.Logf("  %s hands an entry to %s", p.name, t.name)
			}
			t.state = stReady
		}
		s.cur = t
		t.g.signal()
		if !s.await(t) {
			return
		}
		s.cur = nil
		if t.state == stWantLock && t.failedAt == s.epoch {
			s.lockWaits++
			s.r.Logf("  %s blocked at %s on %s", t.name, t.site, s.lockName(t.mu))
		} else {
			s.epoch++
			s.grace = 0
			if t.state == stDone {
				s.r.Logf("  %s done", t.name)
			} else {
				s.r.Logf("  %s -> %s", t.name, t.site)
			}
		}
	}
}

// await waits until the running task comes back: at a scheduling point, finished, or (a streaming producer)
// parked in the send to its consumer. false: the task is blocked for good and the run is over.
//
//go:norace
func (s *sched) await(t *task) bool {
	waited := 0
	for seen := 0; ; {
		step := 1500000
		if t.streaming {
			step = 150 // (microseconds: the producer is back, or parked in its send, almost at once)
		}
		if s.back.waitTimeoutUs(step) {
			return true
		}
		if t.streaming && taskInChanSend(t.goid) {
			t.state = stChanSend
			t.site = "Iterator:send"
			return true
		}
		if waited += step; waited < 1500000 {
			continue
		}
		waited = 0
		// the task has neither finished nor reached a scheduling point: it is computing, or it is blocked
		// inside the library on something that is not one of the hooked locks
		where, stuck := taskBlockedForGood(t.goid)
		if !stuck {
			seen = 0
			continue
		}
		if seen++; seen < 3 {
			continue
		}
		s.deadlock = true
		s.deadMsg = fmt.Sprintf("%s never returns: blocked in %s with no goroutine left that could wake it; ", t.name, where)
		Tainted.Store(true) // that goroutine (and what it holds) cannot be released
		t.stuck = true
		t.state = stDone
		s.wg.Done()
		s.cur = nil
		s.releaseAll()
		return false
	}
}

// releaseAll unwinds every unfinished task so that deferred unlocks run and no thread stays blocked: a
// producer parked in a send has its stream drained, tasks parked at a scheduling point leave from there.
//
//go:norace
func (s *sched) releaseAll() {
	for _, p := range s.tasks {
		if p.state != stChanSend {
			continue
		}
		p.abort = true
		p.state = stReady
		s.cur = p
		for {
			select {
			case <-p.out.ch:
			default:
			}
			if s.back.waitTimeout(1) {
				if p.state == stDone {
					break
				}
				p.g.signal() // it came to a scheduling point: it leaves from there
			}
		}
		s.cur = nil
	}
	for _, o := range s.tasks {
		if o.state != stDone {
			o.abort = true
			s.cur = o
			o.g.signal()
			s.back.wait()
			s.cur = nil
		}
	}
}

//go:norace
func e1TaskDone(t *task) {
	t.state = stDone
	S.back.signal()
}

// RunTasks executes the task functions under the scheduler and returns it.
func RunTasks(r *Run, names []string, fns []func(t *task), lockNames map[*sync.RWMutex]string) *sched {
	s := &sched{r: r, back: newGate(), lockNames: lockNames, lastIdx: -1}
	s.policy = r.Choose("sched-policy", 3)
	s.fine = r.Choose("fine-grained", 2) == 0
	if s.fine {
		r.Probe("fine-grained-map-yields")
	}
	if s.policy == 1 {
		k := r.Choose("pct-d", 4)
		for i := 0; i < k; i++ {
			s.changeAt = append(s.changeAt, r.Choose("pct-at", 60))
		}
	}
	for i, fn := range fns {
		t := &task{id: i, g: newGate(), fn: fn, name: names[i], prio: 1000 - i, recvCh: make(chan recvItem, 1)}
		if s.policy == 1 {
			t.prio = r.Choose("pct-prio", 1000)
		}
		s.tasks = append(s.tasks, t)
	}
	if preStart != nil {
		preStart(s.tasks)
	}
	S = s
	s.run()
	s.wg.Wait() // the only TSan-visible edge: finished run -> result inspection
	abandoned := false
	for _, t := range s.tasks {
		abandoned = abandoned || t.stuck
	}
	if !abandoned {
		// (an abandoned task goroutine has no happens-before edge to this point: the global stays as it is,
		// the worker process is replaced after this run)
		S = nil
	}
	s.back.close()
	for _, t := range s.tasks {
		t.g.close()
	}
	r.Add("sched-steps", int64(s.epoch))
	r.Add("sched-preemptions", int64(s.preempts))
	r.Add("sched-lock-waits", int64(s.lockWaits))
	for _, t := range s.tasks {
		if t.pan != nil {
			site, lib := panicSite(t.pan.stack)
			if v, ok := t.pan.val.(*Violation); ok {
				panic(v)
			}
			if h, ok := t.pan.val.(*harnessError); ok {
				panic(h)
			}
			if lib {
				panic(&Violation{Oracle: "panic", Msg: fmt.Sprintf("%v | %s", t.pan.val, site)})
			}
			panic(&harnessError{fmt.Sprintf("task %s: %v | %s\n%s", t.name, t.pan.val, site, t.pan.stack)})
		}
	}
	return s
}

// ---------------------------------------------------------------- seams

// proxyLog yields before each read of the source log of a Join: the window C14 is about.
type proxyLog struct{ iface.IPFSLog }

func (p proxyLog) GetEntries() iface.IPFSLogOrderedEntries {
	e1Yield("src.GetEntries")
	return p.IPFSLog.GetEntries()
}
func (p proxyLog) RawHeads() iface.IPFSLogOrderedEntries {
	e1Yield("src.RawHeads")
	return p.IPFSLog.RawHeads()
}
func (p proxyLog) GetID() string {
	e1Yield("src.GetID")
	return p.IPFSLog.GetID()
}

// simProvider: a lock-free signer holding the same private key as the real provider
// (whose keystore LRU and datastore mutexes would add happens-before edges between tasks).
type simProvider struct {
	idp.Interface
	priv crypto.PrivKey
}

func (p *simProvider) Sign(ctx context.Context, _ *idp.Identity, data []byte) ([]byte, error) {
	e1Yield("sign")
	return p.priv.Sign(data)
}

var (
	e1WritersOnce sync.Once
	e1Writers     []*Writer
)

// E1Writers: the identity pool with the lock-free signer.
func E1Writers() []*Writer {
	e1WritersOnce.Do(func() {
		for _, w := range Writers() {
			id := *w.ID
			id.Provider = &simProvider{Interface: w.ID.Provider, priv: w.Priv}
			e1Writers = append(e1Writers, &Writer{Name: w.Name, ID: &id, Priv: w.Priv, KS: w.KS})
		}
	})
	return e1Writers
}
