package sim

// C08 / C18 monitors: read-back equality, canonical re-encoding, and leak scans
// of stored blocks when a link key is configured.

import (
	"bytes"
	"context"
	"encoding/hex"
	"fmt"

	ipfslog "berty.tech/go-ipfs-log"
	"berty.tech/go-ipfs-log/entry"
	"berty.tech/go-ipfs-log/identityprovider"
	"berty.tech/go-ipfs-log/iface"
	"berty.tech/go-ipfs-log/io/cbor"
	"github.com/ipfs/go-cid"
	cbornode "github.com/ipfs/go-ipld-cbor"
	"github.com/multiformats/go-multibase"
	mh "github.com/multiformats/go-multihash"
)

func cidsEq(a, b []cid.Cid) bool {
	if len(a) != len(b) {
		return false
	}
	for i := range a {
		if !a[i].Equals(b[i]) {
			return false
		}
	}
	return true
}

// fieldDiff compares every field a reader can observe (additional data excluded:
// it is a transport detail of the link-encrypting codec).
func fieldDiff(a, b iface.IPFSLogEntry) string {
	switch {
	case !bytes.Equal(a.GetPayload(), b.GetPayload()):
		return fmt.Sprintf("payload %x vs %x", a.GetPayload(), b.GetPayload())
	case a.GetLogID() != b.GetLogID():
		return "log id"
	case !cidsEq(a.GetNext(), b.GetNext()):
		return fmt.Sprintf("next %v vs %v", a.GetNext(), b.GetNext())
	case !cidsEq(a.GetRefs(), b.GetRefs()):
		return fmt.Sprintf("refs %v vs %v", a.GetRefs(), b.GetRefs())
	case a.GetV() != b.GetV():
		return "version"
	case !bytes.Equal(a.GetKey(), b.GetKey()):
		return "key"
	case !bytes.Equal(a.GetSig(), b.GetSig()):
		return "sig"
	case !a.GetHash().Equals(b.GetHash()):
		return "hash"
	}
	ca, cb := a.GetClock(), b.GetClock()
	if (ca == nil) != (cb == nil) {
		return "clock presence"
	}
	if ca != nil && (!bytes.Equal(ca.GetID(), cb.GetID()) || ca.GetTime() != cb.GetTime()) {
		return "clock"
	}
	ia, ib := a.GetIdentity(), b.GetIdentity()
	if (ia == nil) != (ib == nil) {
		return "identity presence"
	}
	if ia != nil {
		if ia.ID != ib.ID || ia.Type != ib.Type || !bytes.Equal(ia.PublicKey, ib.PublicKey) {
			return "identity"
		}
		if (ia.Signatures == nil) != (ib.Signatures == nil) {
			return "identity signatures presence"
		}
		if ia.Signatures != nil && (!bytes.Equal(ia.Signatures.ID, ib.Signatures.ID) || !bytes.Equal(ia.Signatures.PublicKey, ib.Signatures.PublicKey)) {
			return "identity signatures"
		}
	}
	return ""
}

func (w *World) checkReadBack(n *Node, e iface.IPFSLogEntry, me *MEntry) {
	r := w.R
	if w.Codec == "pb" {
		return // the legacy codec is a decoder for v0 blocks only (golden vectors)
	}
	raw, ok := w.St.Raw(e.GetHash())
	if !ok {
		r.Violate("C08:stored", "the block of appended entry %s is not in the store", w.M.Name(me.Hash))
	}
	sum, err := e.GetHash().Prefix().Sum(raw)
	if err != nil || !sum.Equals(e.GetHash()) {
		r.Violate("C08:cid-of-bytes", "identifier of %s is not the hash of its stored bytes", w.M.Name(me.Hash))
	}
	dec, err := entry.FromMultihashWithIO(w.ctx, w.St, e.GetHash(), n.W.ID.Provider, w.IO)
	if err != nil {
		r.Violate("C08:readback", "entry %s does not read back: %v", w.M.Name(me.Hash), err)
	}
	if d := fieldDiff(e, dec); d != "" {
		r.Violate("C08:readback-fields", "entry %s read back differs in %s (codec %s)", w.M.Name(me.Hash), d, w.Codec)
	}
	if w.PayloadBin {
		r.Probe("readback-binary-payload")
	}
	if w.Codec == "cbor" {
		scratch := NewStore()
		c2, err := entry.ToMultihashWithIO(w.ctx, dec, scratch, nil, w.IO)
		if err != nil || !c2.Equals(e.GetHash()) {
			r.Violate("C08:reencode", "re-encoding the decoded entry %s gives %v (err %v), not its identifier", w.M.Name(me.Hash), c2, err)
		}
		c3, err := entry.ToMultihashWithIO(w.ctx, e, scratch, nil, w.IO)
		if err != nil || !c3.Equals(e.GetHash()) {
			r.Violate("C08:reencode", "encoding the in-memory entry %s again gives %v (err %v)", w.M.Name(me.Hash), c3, err)
		}
	}
}

func (w *World) checkManifest(n *Node, c cid.Cid) {
	r := w.R
	if !w.P.Check["C08"] || w.Codec == "pb" {
		return
	}
	c2, err := n.Log.ToMultihash(w.ctx)
	if err != nil || !c2.Equals(c) {
		r.Violate("C08:manifest-stable", "publishing the same log twice gave %v then %v (err %v)", c, c2, err)
	}
	raw, _ := w.St.Raw(c)
	if sum, err := c.Prefix().Sum(raw); err != nil || !sum.Equals(c) {
		r.Violate("C08:cid-of-bytes", "manifest identifier is not the hash of its stored bytes")
	}
	node, err := w.IO.Read(w.ctx, w.St, c)
	if err != nil {
		r.Violate("C08:manifest-readback", "manifest does not read back: %v", err)
	}
	jl, err := w.IO.DecodeRawJSONLog(node)
	if err != nil {
		r.Violate("C08:manifest-readback", "manifest does not decode: %v", err)
	}
	want := n.Log.ToJSONLog()
	if jl.ID != want.ID || !cidsEq(jl.Heads, want.Heads) {
		r.Violate("C08:manifest-readback", "manifest read back as id=%q heads=%v, log says id=%q heads=%v", jl.ID, jl.Heads, want.ID, want.Heads)
	}
}

var leakEncodings = []multibase.Encoding{multibase.Base32, multibase.Base58BTC, multibase.Base64, multibase.Base64url, multibase.Base16, multibase.Base36}

// leaks reports whether raw contains c in binary or any textual multibase form.
func leaks(raw []byte, c cid.Cid) string {
	if bytes.Contains(raw, c.Bytes()) {
		return "binary"
	}
	if bytes.Contains(raw, c.Hash()) {
		return "multihash"
	}
	for _, enc := range leakEncodings {
		s, err := multibase.Encode(enc, c.Bytes())
		if err != nil {
			continue
		}
		if bytes.Contains(raw, []byte(s)) || (len(s) > 1 && bytes.Contains(raw, []byte(s[1:]))) {
			return multibase.EncodingToStr[enc]
		}
	}
	return ""
}

func (w *World) checkLinkKeyEntry(n *Node, e iface.IPFSLogEntry, me *MEntry) {
	r := w.R
	raw, ok := w.St.Raw(e.GetHash())
	if !ok {
		r.Violate("C18:stored", "block of %s missing", w.M.Name(me.Hash))
	}
	if len(me.Next)+len(me.Refs) > 0 {
		r.Probe("linkkey-entry-with-links")
	}
	// no identifier of any known entry (other than itself) in the stored bytes
	for _, h := range w.M.Order {
		if h == me.Hash {
			continue
		}
		if how := leaks(raw, w.Cids[h]); how != "" {
			r.Violate("C18:leak", "stored block of %s contains the identifier of %s (%s form)", w.M.Name(me.Hash), w.M.Name(h), how)
		}
	}
	nd, err := cbornode.Decode(raw, mh.SHA2_256, -1)
	if err != nil {
		r.Violate("C18:block-decode", "stored block of %s is not valid dag-cbor: %v", w.M.Name(me.Hash), err)
	}
	if len(nd.Links()) != 0 {
		r.Violate("C18:links", "stored block of %s exposes %d traversable links", w.M.Name(me.Hash), len(nd.Links()))
	}
	// same key: identical lists, verifies
	dec, err := entry.FromMultihashWithIO(w.ctx, w.St, e.GetHash(), n.W.ID.Provider, w.IO)
	if err != nil {
		r.Violate("C18:same-key-read", "reader with the same key cannot decode %s: %v", w.M.Name(me.Hash), err)
	}
	if !cidsEq(dec.GetNext(), e.GetNext()) || !cidsEq(dec.GetRefs(), e.GetRefs()) {
		r.Violate("C18:same-key-links", "reader with the same key recovers next=%v refs=%v, written next=%v refs=%v", dec.GetNext(), dec.GetRefs(), e.GetNext(), e.GetRefs())
	}
	if err := dec.Verify(n.W.ID.Provider, w.IO); err != nil {
		r.Violate("C18:same-key-verify", "entry %s (next=%d refs=%d) decoded with the same key does not verify: %v", w.M.Name(me.Hash), len(me.Next), len(me.Refs), err)
	}
	// the entry API's own write options (pinned, written in its pre-signature form): whatever the
	// options, a block written through the keyed codec must not expose the links
	if k := r.Choose("republish-opts", 6); k < 5 {
		opts := []*iface.CreateEntryOptions{{Pin: true}, {PreSigned: true}, {PreSigned: true, Pin: true}, {}, {Pin: true}}[k]
		from := len(w.St.Writes)
		var err error
		if k < 3 {
			_, err = entry.ToMultihashWithIO(w.ctx, e, w.St, opts, w.IO)
		} else {
			// the codec's own Write, as a wrapping codec or a re-publishing application calls it: with no options,
			// or with options of its own making
			var wo *iface.WriteOpts
			if k == 4 {
				wo = &iface.WriteOpts{Pin: true}
			}
			_, err = w.IO.Write(w.ctx, w.St, e.Copy(), wo)
			r.Probe("linkkey-entry-written-through-the-codec-directly")
		}
		r.Logf("  re-publish %s with options pin=%v presigned=%v direct=%v err=%v", w.M.Name(me.Hash), opts.Pin, opts.PreSigned, k >= 3, err != nil)
		r.Probe("linkkey-entry-written-with-options")
		for _, wr := range w.St.Writes[from:] {
			for _, h := range w.M.Order {
				if h == me.Hash {
					continue
				}
				if how := leaks(wr.Bytes, w.Cids[h]); how != "" {
					r.Violate("C18:leak", "block of %s written with options pin=%v presigned=%v contains the identifier of %s (%s form)", w.M.Name(me.Hash), opts.Pin, opts.PreSigned, w.M.Name(h), how)
				}
			}
			if nd, err := cbornode.Decode(wr.Bytes, mh.SHA2_256, -1); err == nil && len(nd.Links()) != 0 {
				r.Violate("C18:links", "block of %s written with options pin=%v presigned=%v exposes %d traversable links", w.M.Name(me.Hash), opts.Pin, opts.PreSigned, len(nd.Links()))
			}
		}
	}
	// other key / no key: no links
	for _, rd := range []struct {
		name string
		io   iface.IO
	}{{"a different key", linkIO(linkKeyBytes(2))}, {"no key", defaultIO()}, {"no key (codec derived from the keyed one with empty options)", keylessFrom(w.IO)}} {
		d2, err := entry.FromMultihashWithIO(w.ctx, w.St, e.GetHash(), n.W.ID.Provider, rd.io)
		if err != nil {
			continue // entry absent for this reader
		}
		if len(d2.GetNext()) != 0 || len(d2.GetRefs()) != 0 {
			r.Violate("C18:foreign-reader-links", "reader with %s obtained next=%v refs=%v from the block of %s", rd.name, d2.GetNext(), d2.GetRefs(), w.M.Name(me.Hash))
		}
	}
}

// keylessFrom: the codec an application gets by deriving from its keyed codec with options that name no key.
func keylessFrom(io iface.IO) iface.IO {
	if c, ok := io.(*cbor.IOCbor); ok {
		return c.ApplyOptions(&cbor.Options{})
	}
	return defaultIO()
}

// doReader (C18): a reader node loads a keyed log with the same / another / no key.
func (w *World) doReader() {
	n := w.pickUp("reader-src")
	r := w.R
	which := r.Choose("reader-key", 3)
	if n == nil || len(n.Set) == 0 || w.LinkKeyBytes == nil {
		return
	}
	var io iface.IO
	switch which {
	case 0:
		io = w.IO
	case 1:
		io = linkIO(linkKeyBytes(2))
	default:
		io = defaultIO()
	}
	o := &ipfslog.LogOptions{ID: w.LogID, SortFn: w.sortFn(), IO: io}
	js := n.Log.ToJSONLog()
	var l *ipfslog.IPFSLog
	var err error
	w.driven(func(ctx context.Context) {
		l, err = ipfslog.NewFromJSON(ctx, w.St, Writers()[4].ID, js, o, w.fetchOpts(0, nil, 0))
	})
	r.Logf("reader of n%d key=%s err=%v", n.Idx, [...]string{"same", "different", "none"}[which], err != nil)
	if which == 0 {
		if err != nil {
			r.Violate(w.P.Prop+":same-key-load", "reader with the same key cannot load the log: %v", err)
		}
		if got := hashSet(l.GetEntries()); !setEq(got, n.Set) {
			r.Violate(w.P.Prop+":same-key-load", "reader with the same key loaded %d of %d entries", len(got), len(n.Set))
		}
		o2 := &ipfslog.LogOptions{ID: w.LogID, SortFn: w.sortFn(), IO: io}
		fresh, _ := ipfslog.NewLog(w.St, Writers()[4].ID, o2)
		if _, err := fresh.Join(l, -1); err != nil {
			r.Violate(w.P.Prop+":same-key-merge", "a keyed replica refused the entries loaded with the same key: %v", err)
		}
		if fresh.Len() != len(n.Set) {
			r.Violate(w.P.Prop+":same-key-merge", "a keyed replica merged %d of %d entries", fresh.Len(), len(n.Set))
		}
		return
	}
	if err != nil || l == nil {
		return
	}
	for _, e := range liveSlice(l.GetEntries()) {
		if len(e.GetNext()) != 0 || len(e.GetRefs()) != 0 {
			r.Violate(w.P.Prop+":foreign-reader-links", "reader with %s key obtained links from entry %s", [...]string{"same", "a different", "no"}[which], w.M.Name(e.GetHash().String()))
		}
	}
	heads := map[string]bool{}
	for _, c := range js.Heads {
		heads[c.String()] = true
	}
	for h := range hashSet(l.GetEntries()) {
		if !heads[h] {
			r.Violate(w.P.Prop+":foreign-reader-traversal", "reader without the key reached %s beyond the published heads", w.M.Name(h))
		}
	}
}

// doRawEntry: entries of arbitrary shape made directly with the entry API (not through a log):
// any number of predecessors and references (also references without predecessors), and
// hand-built entries whose key, signature, identity and clock are unrelated byte strings.
func (w *World) doRawEntry() {
	r := w.R
	n := w.pickUp("raw-node")
	nNext := r.Choose("raw-nnext", 4)
	nRefs := r.Choose("raw-nrefs", 5)
	if long := r.Choose("raw-long-lists", 6); long == 0 {
		nNext = 9 + r.Choose("raw-nnext-long", 6) // lists long enough to leave any small-list fast path
	} else if long == 1 {
		nRefs = 9 + r.Choose("raw-nrefs-long", 8)
	}
	handBuilt := r.Choose("raw-handbuilt", 3) == 0
	picks := make([]int, 40)
	for i := range picks {
		picks[i] = r.Choose("raw-pick", 1<<16)
	}
	// clock times of every magnitude (the signed and the stored form must both keep every bit)
	clockT := (1 << uint(r.Choose("raw-clock-exp", 62))) + r.Choose("raw-clock", 1<<10) - 1
	ver := 1 + r.Choose("raw-v", 2)
	idMode := r.Choose("raw-identity", 4)
	if n == nil {
		return
	}
	pl := w.payload()
	var next, refs []cid.Cid
	known := w.M.Order
	if len(known) > 0 {
		for i := 0; i < nNext; i++ {
			c := w.Cids[known[picks[i]%len(known)]]
			if !containsCid(next, c) {
				next = append(next, c)
			}
		}
		for i := 0; i < nRefs; i++ {
			c := w.Cids[known[picks[20+i]%len(known)]]
			if !containsCid(refs, c) && !containsCid(next, c) {
				refs = append(refs, c)
			}
		}
	}
	if !handBuilt {
		tmpl := &entry.Entry{LogID: w.LogID, Payload: pl, Next: next, Refs: refs, Clock: entry.NewLamportClock(n.W.ID.PublicKey, clockT)}
		if picks[10]%4 == 0 {
			tmpl.V = uint64(picks[10] / 4 % 3) // whatever version the template carries (a copy of an old entry): the entry API writes the current one
			r.Probe("template-with-version")
		}
		if picks[5]%5 == 0 {
			tmpl.Clock = nil // the entry API then gives the default clock: the writer's key at time 0
			r.Probe("entry-with-default-clock")
		}
		var tmplIn iface.IPFSLogEntry = tmpl
		if picks[6]%3 == 0 && len(known) > 0 {
			// the application derives the new entry from one it already has (a copy of an entry of this writer
			// that went through the codec before, with other links and perhaps another payload or time): what
			// the copy carries over from its first publication must not leak into the new entry
			myKey := hex.EncodeToString(n.W.ID.PublicKey)
			for i := 0; i < len(known); i++ {
				bh := known[(picks[7]+i)%len(known)]
				if bm := w.M.Reg[bh]; bm.ClockID != myKey || bm.LogID != w.LogID || w.Ent[bh] == nil {
					continue
				}
				base := w.Ent[bh]
				keep := picks[9] % 8
				dNext, dRefs, dPl, dT := next, refs, pl, clockT
				if keep&1 != 0 {
					dNext = append([]cid.Cid(nil), base.GetNext()...)
					dRefs = nil
					for _, c := range refs {
						if !containsCid(dNext, c) {
							dRefs = append(dRefs, c)
						}
					}
				}
				if keep&2 != 0 {
					dPl = append([]byte(nil), base.GetPayload()...)
				}
				if keep&4 != 0 {
					dT = base.GetClock().GetTime()
				}
				if keep == 7 && cidsEq(dRefs, base.GetRefs()) {
					break // that would be the base entry itself
				}
				next, refs, pl, clockT = dNext, dRefs, dPl, dT
				fpBase := fingerprint(base)
				d := base.Copy()
				d.SetPayload(pl)
				d.SetNext(next)
				d.SetRefs(refs)
				d.SetClock(entry.NewLamportClock(n.W.ID.PublicKey, clockT))
				tmplIn = d
				r.Probe("entry-derived-from-published-entry")
				r.Logf("raw-entry template: copy of %s keeping next=%v payload=%v time=%v", w.M.Name(bh), keep&1 != 0, keep&2 != 0, keep&4 != 0)
				defer func() {
					if f := fingerprint(base); f != fpBase {
						r.Violate(w.P.Prop+":mutated", "creating an entry from a copy of %s changed %s itself: was %s now %s", w.M.Name(bh), w.M.Name(bh), fpBase, f)
					}
				}()
				break
			}
		}
		signer := n.W.ID
		if reps := keyRepresentations(n.W.ID.PublicKey); len(reps) > 0 && picks[16]%5 == 0 && tmplIn == iface.IPFSLogEntry(tmpl) && tmpl.Clock != nil {
			// a writer whose identity carries the same public key in its compressed or hybrid form (another
			// implementation's habit): a legal key - its entries are signed, stored, read, verified and merged like any
			idc := *n.W.ID
			idc.PublicKey = reps[picks[17]%len(reps)]
			signer = &idc
			tmpl.Clock = entry.NewLamportClock(idc.PublicKey, clockT)
			r.Probe("writer-key-in-another-representation")
		}
		e, err := entry.CreateEntryWithIO(w.ctx, w.St, signer, tmplIn, nil, w.IO)
		if err != nil {
			r.Violate(w.P.Prop+":create-entry", "CreateEntryWithIO failed for next=%d refs=%d: %v", len(next), len(refs), err)
		}
		if w.P.Check["C08"] && (!cidsEq(e.GetNext(), next) || !cidsEq(e.GetRefs(), refs)) {
			r.Violate("C08:create-entry-links", "CreateEntryWithIO returned an entry whose link lists differ from the (duplicate-free) ones supplied: next %d/%d refs %d/%d entries, or another order", len(e.GetNext()), len(next), len(e.GetRefs()), len(refs))
		}
		me := w.register(e)
		r.Logf("raw-entry %s next=%d refs=%d cid=%s", w.M.Name(me.Hash), len(next), len(refs), me.Hash)
		if len(next) == 0 && len(refs) > 0 {
			r.Probe("entry-with-refs-but-no-next")
		}
		w.afterAppend(n, e, me)
		if w.P.Check["C07"] {
			// the same single-field corruptions as for log entries
			kind := picks[8] % nTamper
			var other iface.IPFSLogEntry
			if len(known) > 1 {
				other = w.Ent[known[picks[7]%len(known)]]
				if other != nil && other.GetHash().Equals(e.GetHash()) {
					other = nil
				}
			}
			if err := e.Verify(n.W.ID.Provider, w.IO); err != nil {
				r.Violate("C07:honest-verify", "freshly created entry (next=%d refs=%d) does not verify: %v", len(next), len(refs), err)
			}
			tr := tamper(r, e, kind, other, Writers()[picks[6]%len(Writers())].ID.PublicKey)
			if tr.applied && !tr.invisible {
				r.Fault("tamper-" + tamperNames[kind])
				if err := tr.e.Verify(n.W.ID.Provider, w.IO); err == nil {
					r.Violate("C07:"+tamperNames[kind], "entry (next=%d refs=%d) with %s still verifies", len(next), len(refs), tr.detail)
				}
			}
		}
		return
	}
	if !w.P.Check["C08"] || w.Codec == "pb" {
		return
	}
	// hand-built: fields are unrelated byte strings; the codec must carry them unchanged
	rb := func(k, n int) []byte {
		b := make([]byte, 1+k%n)
		for i := range b {
			b[i] = byte(k*31 + i*7)
		}
		return b
	}
	he := &entry.Entry{LogID: w.LogID, Payload: pl, Next: append([]cid.Cid{}, next...), V: uint64(ver),
		Key: rb(picks[0], 65), Sig: rb(picks[1], 72), Clock: entry.NewLamportClock(rb(picks[2], 65), clockT)}
	if ver > 1 {
		he.Refs = append([]cid.Cid{}, refs...)
	}
	// key material in another legal representation of a real key (compressed, hybrid): bytes are bytes - what
	// was written is what is read
	if reps := keyRepresentations(n.W.ID.PublicKey); len(reps) > 0 {
		switch picks[11] % 4 {
		case 1:
			he.Key = reps[picks[12]%len(reps)]
			r.Probe("hand-built-entry-key-representation")
		case 2:
			he.Clock = entry.NewLamportClock(reps[picks[12]%len(reps)], clockT)
			r.Probe("hand-built-entry-key-representation")
		}
	}
	// an entry written by hand (or by another implementation) may leave an empty list absent: nil
	// encodes as null, which must read back and re-encode as such
	if len(he.Next) == 0 && picks[6]%2 == 0 {
		he.Next = nil
		r.Probe("hand-built-entry-nil-list")
	}
	if len(he.Refs) == 0 && picks[7]%2 == 0 {
		he.Refs = nil
		r.Probe("hand-built-entry-nil-list")
	}
	switch idMode {
	case 1:
		he.Identity = n.W.ID.Filtered()
	case 2:
		o := Writers()[picks[3]%len(Writers())].ID.Filtered()
		he.Identity = o
	case 3:
		// the same identity id with other key material (rotated signing key, second device)
		o := n.W.ID.Filtered()
		o.PublicKey = rb(picks[3], 65)
		if reps := keyRepresentations(n.W.ID.PublicKey); len(reps) > 0 && picks[13]%2 == 0 {
			o.PublicKey = reps[picks[14]%len(reps)]
			r.Probe("hand-built-entry-key-representation")
		}
		o.Signatures = &identityprovider.IdentitySignature{ID: rb(picks[4], 72), PublicKey: rb(picks[5], 72)}
		he.Identity = o
	}
	c, err := entry.ToMultihashWithIO(w.ctx, he, w.St, nil, w.IO)
	if err != nil {
		r.Violate("C08:write", "hand-built entry (v%d, identity mode %d) does not encode: %v", ver, idMode, err)
	}
	he.Hash = c
	r.Logf("hand-built entry v%d identity=%d next=%d refs=%d cid=%s", ver, idMode, len(he.Next), len(he.Refs), c.String())
	r.Probe("hand-built-entry")
	if w.LinkKeyBytes != nil && len(he.Next)+len(he.Refs) > 0 {
		return // without PreSign the link codec writes links in clear: only the signing path encrypts
	}
	dec, err := entry.FromMultihashWithIO(w.ctx, w.St, c, n.W.ID.Provider, w.IO)
	if err != nil {
		r.Violate("C08:readback", "hand-built entry does not read back: %v", err)
	}
	if d := fieldDiff(he, dec); d != "" {
		r.Violate("C08:readback-fields", "hand-built entry (v%d, identity mode %d) read back differs in %s", ver, idMode, d)
	}
	if w.Codec == "cbor" {
		c2, err := entry.ToMultihashWithIO(w.ctx, dec, NewStore(), nil, w.IO)
		if err != nil || !c2.Equals(c) {
			r.Violate("C08:reencode", "re-encoding the decoded hand-built entry gives %v (err %v), not %v", c2, err, c)
		}
	}
}

// keyRepresentations: the other legal encodings of an uncompressed secp256k1 public key (04 X Y): compressed
// (02/03 X) and hybrid (06/07 X Y).
func keyRepresentations(pub []byte) [][]byte {
	if len(pub) != 65 || pub[0] != 4 {
		return nil
	}
	odd := pub[64] & 1
	comp := append([]byte{2 + odd}, pub[1:33]...)
	hyb := append([]byte{6 + odd}, pub[1:]...)
	return [][]byte{comp, hyb}
}
