package sim

// E3: the keystore world. Several keystore instances ("processes") over one
// fault-injecting datastore; every operation is checked against a map model.
// Keys come from crypto/rand, so only relations between keys are compared and
// nothing key-dependent enters the event log.

import (
	"bytes"
	"context"
	cryptorand "crypto/rand"
	"encoding/hex"
	"errors"
	"fmt"
	"sync"

	"berty.tech/go-ipfs-log/entry"
	idp "berty.tech/go-ipfs-log/identityprovider"
	ks "berty.tech/go-ipfs-log/keystore"
	ds "github.com/ipfs/go-datastore"
	dssync "github.com/ipfs/go-datastore/sync"
	"github.com/libp2p/go-libp2p/core/crypto"
)

// simds: MapDatastore behind a shim that fails Put/Get on demand.
type simds struct {
	ds.Datastore
	failPut int // fail the next n Puts
	failGet int // fail the next n Gets (with an I/O error, not NotFound)
	puts    int
	gets    int
	onFault func(string)
}

var errDisk = errors.New("simds: injected I/O error")

func (s *simds) Put(ctx context.Context, k ds.Key, v []byte) error {
	s.puts++
	if s.failPut > 0 {
		s.failPut--
		s.onFault("ds-put-error")
		return errDisk
	}
	return s.Datastore.Put(ctx, k, v)
}

func (s *simds) Get(ctx context.Context, k ds.Key) ([]byte, error) {
	s.gets++
	if s.failGet > 0 {
		s.failGet--
		s.onFault("ds-get-error")
		return nil, errDisk
	}
	return s.Datastore.Get(ctx, k)
}

type e3World struct {
	r      *Run
	d      *simds
	inst   []*ks.Keystore
	model  map[string][]byte // id -> raw public key of the stored key
	order  []string
	idents map[string]*idp.Identity
	ctx    context.Context
	bulk   int
}

func pubRaw(k crypto.PrivKey) []byte {
	b, _ := k.GetPublic().Raw()
	return b
}

func (w *e3World) open() {
	k, err := ks.NewKeystore(w.d)
	if err != nil {
		w.r.Harness("NewKeystore: %v", err)
	}
	w.inst = append(w.inst, k)
}

func (w *e3World) checkAll(what string) {
	// every created id is present and identical on every instance; sampled to keep runs short
	ids := w.order
	if len(ids) > 12 {
		ids = append(append([]string{}, ids[:6]...), ids[len(ids)-6:]...)
	}
	for i, k := range w.inst {
		for _, id := range ids {
			w.checkHas(i, k, id, what)
			w.checkGet(i, k, id, what)
		}
	}
}

func (w *e3World) checkHas(i int, k *ks.Keystore, id, what string) {
	has, err := k.HasKey(w.ctx, id)
	_, want := w.model[id]
	if want && (!has || err != nil) {
		w.r.Violate("C20:has-key", "%s: key %q was created but instance %d reports present=%v err=%v", what, id, i, has, err)
	}
	if !want && has {
		w.r.Violate("C20:has-key-absent", "%s: key %q was never created but instance %d reports it present", what, id, i)
	}
}

func (w *e3World) checkGet(i int, k *ks.Keystore, id, what string) {
	key, err := k.GetKey(w.ctx, id)
	pub, want := w.model[id]
	if want {
		if err != nil || key == nil {
			w.r.Violate("C20:get-key", "%s: key %q was created but instance %d cannot return it: %v", what, id, i, err)
		}
		if !bytes.Equal(pubRaw(key), pub) {
			w.r.Violate("C20:get-key-identical", "%s: instance %d returns a different key for %q than the one created", what, i, id)
		}
	} else if err == nil {
		w.r.Violate("C20:get-key-absent", "%s: key %q was never created but instance %d returns a key", what, id, i)
	}
}

func identEq(a, b *idp.Identity) string {
	switch {
	case a.ID != b.ID:
		return "id"
	case !bytes.Equal(a.PublicKey, b.PublicKey):
		return "public key"
	case a.Type != b.Type:
		return "type"
	case !bytes.Equal(a.Signatures.ID, b.Signatures.ID):
		return "id signature"
	case !bytes.Equal(a.Signatures.PublicKey, b.Signatures.PublicKey):
		return "public-key signature"
	}
	return ""
}

func (w *e3World) checkIdentity(id string, ident *idp.Identity) {
	r := w.r
	pub, err := crypto.UnmarshalSecp256k1PublicKey(ident.PublicKey)
	if err != nil {
		r.Violate("C20:identity-pubkey", "published public key of %q does not parse: %v", id, err)
	}
	ok, err := pub.Verify([]byte(ident.ID), ident.Signatures.ID)
	if err != nil || !ok {
		r.Violate("C20:id-signature", "id signature of identity %q does not verify under its published public key", id)
	}
	idKeyBytes, err := hex.DecodeString(ident.ID)
	if err != nil {
		r.Violate("C20:identity-id", "identity id of %q is not a hex public key", id)
	}
	idKey, err := crypto.UnmarshalSecp256k1PublicKey(idKeyBytes)
	if err != nil {
		r.Violate("C20:identity-id", "identity id of %q does not denote a key: %v", id, err)
	}
	data := []byte(hex.EncodeToString(append(append([]byte{}, ident.PublicKey...), ident.Signatures.ID...)))
	ok, err = idKey.Verify(data, ident.Signatures.PublicKey)
	if err != nil || !ok {
		r.Violate("C20:pubkey-signature", "public-key signature of identity %q does not verify under the key its id denotes", id)
	}
	// the key the id denotes is the one stored under the user's id
	if up, okm := w.model[id]; okm && !bytes.Equal(up, idKeyBytes) {
		r.Violate("C20:identity-id", "identity id of %q is not the public key of the key stored under that id", id)
	}
	// an entry signed with the identity verifies under the published key bytes
	st := NewStore()
	e, err := entry.CreateEntry(w.ctx, st, ident, &entry.Entry{Payload: []byte("signed by " + id), LogID: "K"}, nil)
	if err != nil {
		r.Violate("C20:sign-entry", "cannot sign an entry with identity %q: %v", id, err)
	}
	if !bytes.Equal(e.GetKey(), ident.PublicKey) {
		r.Violate("C20:entry-key", "entry signed with identity %q does not carry its published key", id)
	}
	if err := e.Verify(ident.Provider, defaultIO()); err != nil {
		r.Violate("C20:entry-verify", "entry signed with identity %q does not verify under the published key: %v", id, err)
	}
}

// expiredContextOp: get / has / create-identity with a context that is already done.
func (w *e3World) expiredContextOp(op, i int, k *ks.Keystore, id string) {
	r := w.r
	ctx, cancel := context.WithCancel(w.ctx)
	cancel()
	r.Fault("expired-context")
	switch {
	case op <= 4:
		key, err := k.GetKey(ctx, id)
		r.Logf("get inst%d %s with an expired context err=%v", i, id, err != nil)
		if pub, ok := w.model[id]; err == nil && key != nil {
			if !ok {
				r.Violate("C20:get-key-absent", "GetKey(%q) with an expired context returned a key for an id never created", id)
			}
			if !bytes.Equal(pubRaw(key), pub) {
				r.Violate("C20:get-key-identical", "GetKey(%q) with an expired context returned a different key than the one created", id)
			}
		}
	case op <= 8:
		has, err := k.HasKey(ctx, id)
		r.Logf("has inst%d %s with an expired context -> %v err=%v", i, id, has, err != nil)
		if _, ok := w.model[id]; has && !ok {
			r.Violate("C20:has-key-absent", "HasKey(%q) with an expired context reports an id never created as present", id)
		}
	default:
		if _, ok := w.model[id]; !ok {
			return // would (legitimately) create keys: bookkeeping is left to the ordinary operation
		}
		ident, err := idp.CreateIdentity(ctx, &idp.CreateIdentityOptions{Keystore: k, ID: id, Type: "orbitdb"})
		r.Logf("identity %s on inst%d with an expired context err=%v", id, i, err != nil)
		if err == nil {
			if prev, ok := w.idents[id]; ok {
				if d := identEq(prev, ident); d != "" {
					r.Violate("C20:identity-stable", "identity for %q created with an expired context differs from the one created earlier in %s", id, d)
				}
			}
			// the key named by the identity's id may be new to the model
			if _, ok := w.model[ident.ID]; !ok {
				if key, err := k.GetKey(w.ctx, ident.ID); err == nil {
					w.model[ident.ID] = pubRaw(key)
				}
			}
		}
	}
}

// tapeRand replaces crypto/rand.Reader during a keystore run: key generation is the one consumer
// of randomness in the library, and a violation that depends on the bytes of a key must replay.
type tapeRand struct {
	x  *xoshiro
	mu sync.Mutex // (tasks of the concurrent keystore world create keys: an edge between creators only)
}

func (t *tapeRand) Read(p []byte) (int, error) {
	t.mu.Lock()
	defer t.mu.Unlock()
	for i := range p {
		p[i] = byte(t.x.next() >> 24)
	}
	return len(p), nil
}

var e3IDs = []string{"id0", "id1", "id2", "id3", "id4", "id5", "org1/alice", "org2/alice", "alice", "did:key:z6Mk", "did:web:z6Mk", "z6Mk", "cafe01", "CAFE01", "Alice"}

func RunE3(r *Run) {
	saved := cryptorand.Reader
	cryptorand.Reader = &tapeRand{x: newXoshiro(uint64(r.Choose("key-entropy", 1<<30)))}
	defer func() { cryptorand.Reader = saved }()
	w := &e3World{r: r, model: map[string][]byte{}, idents: map[string]*idp.Identity{}, ctx: context.Background()}
	w.d = &simds{Datastore: dssync.MutexWrap(ds.NewMapDatastore()), onFault: func(k string) { r.Fault(k) }}
	nInst := 1 + r.Choose("ninst", 3)
	for i := 0; i < nInst; i++ {
		w.open()
	}
	faulty := r.Choose("fault-batch", 3) != 0
	const steps = 40 // the tape ends the run earlier (op 0)
	r.Logf("keystore world instances=%d faulty=%v", nInst, faulty)
	nev := 0
	for s := 0; s < steps; s++ {
		nev = s
		r.T.Mark()
		op := r.Choose("op", 12)
		if op == 0 {
			break
		}
		i := r.Choose("inst", len(w.inst))
		k := w.inst[i]
		// ids are arbitrary strings: flat names, paths and URIs whose last component coincides
		id := e3IDs[r.Choose("id", len(e3IDs))]
		fault := faulty && r.Choose("fault?", 8) == 0
		// another fault kind: the caller's context is already cancelled (or past its deadline). The call may
		// fail; it must not change or replace anything
		if faulty && !fault && r.Choose("expired-ctx?", 8) == 0 {
			w.expiredContextOp(op, i, k, id)
			w.checkAll("after a call with an expired context")
			continue
		}
		switch op {
		case 1, 2: // create (only ids that do not exist: a second create replaces the key by design)
			if _, exists := w.model[id]; exists {
				w.checkGet(i, k, id, "get")
				break
			}
			if fault {
				w.d.failPut = 1
			}
			key, err := k.CreateKey(w.ctx, id)
			w.d.failPut = 0
			r.Logf("create inst%d %s fault=%v err=%v", i, id, fault, err != nil)
			if fault {
				if err == nil {
					r.Violate("C20:create-acknowledged-lost", "CreateKey(%q) succeeded although the datastore write failed", id)
				}
				for j, kk := range w.inst {
					w.checkHas(j, kk, id, "after failed create")
				}
				break
			}
			if err != nil {
				r.Violate("C20:create", "CreateKey(%q) failed without a fault: %v", id, err)
			}
			w.model[id] = pubRaw(key)
			w.order = append(w.order, id)
		case 3, 4:
			if fault {
				w.d.failGet = 1
				_, err := k.GetKey(w.ctx, id)
				left := w.d.failGet
				w.d.failGet = 0
				r.Logf("get inst%d %s with I/O error err=%v consumed=%v", i, id, err != nil, left == 0)
				if left == 0 && err == nil {
					if _, ok := w.model[id]; !ok {
						r.Violate("C20:get-key-absent", "GetKey(%q) returned a key for an id never created", id)
					}
				}
				break
			}
			r.Logf("get inst%d %s", i, id)
			w.checkGet(i, k, id, "get")
		case 5, 6:
			r.Logf("has inst%d %s", i, id)
			w.checkHas(i, k, id, "has")
		case 7: // restart: a new instance over the same datastore
			w.open()
			r.Fault("restart")
			r.Logf("open instance %d", len(w.inst)-1)
		case 8: // overflow the cache of one instance
			n := 129 + r.Choose("bulk-extra", 8)
			for j := 0; j < n; j++ {
				bid := fmt.Sprintf("bulk%d", w.bulk)
				w.bulk++
				key, err := k.CreateKey(w.ctx, bid)
				if err != nil {
					r.Violate("C20:create", "CreateKey(%q) failed without a fault: %v", bid, err)
				}
				w.model[bid] = pubRaw(key)
				w.order = append(w.order, bid)
			}
			r.Probe("lru-eviction")
			r.Nontrivial()
			r.Logf("bulk-create inst%d %d keys", i, n)
		case 9, 10, 11: // identities
			j := r.Choose("inst2", len(w.inst))
			// one options value for both calls (the keystore field set before each): what the caller passed is
			// still what the caller passed afterwards
			opts := &idp.CreateIdentityOptions{ID: id, Type: "orbitdb"}
			reuse := r.Choose("reuse-identity-options", 2) == 0
			mk := func(kk *ks.Keystore) *idp.Identity {
				o := opts
				if !reuse {
					o = &idp.CreateIdentityOptions{ID: id, Type: "orbitdb"}
				}
				o.Keystore = kk
				ident, err := idp.CreateIdentity(w.ctx, o)
				if err != nil {
					r.Violate("C20:create-identity", "CreateIdentity(%q) failed without a fault: %v", id, err)
				}
				if o.ID != id || o.Type != "orbitdb" || o.Keystore != kk {
					r.Violate("C20:caller-options-modified", "CreateIdentity(%q) changed the options value its caller passed: id %q type %q", id, o.ID, o.Type)
				}
				return ident
			}
			a := mk(k)
			// bookkeeping: CreateIdentity may have created the user key and the key named by its hex public key
			for _, kid := range []string{id, a.ID} {
				if _, ok := w.model[kid]; !ok {
					key, err := k.GetKey(w.ctx, kid)
					if err != nil {
						r.Violate("C20:get-key", "key %q created by CreateIdentity cannot be returned: %v", kid, err)
					}
					w.model[kid] = pubRaw(key)
					if kid == id {
						w.order = append(w.order, kid)
					}
				}
			}
			b := mk(w.inst[j])
			r.Logf("identity %s on inst%d then inst%d", id, i, j)
			if d := identEq(a, b); d != "" {
				r.Violate("C20:identity-stable", "creating the identity for %q twice (instances %d and %d) gives a different %s", id, i, j, d)
			}
			if prev, ok := w.idents[id]; ok {
				if d := identEq(prev, a); d != "" {
					r.Violate("C20:identity-stable", "identity for %q differs from the one created earlier in %s", id, d)
				}
			}
			w.idents[id] = a
			w.checkIdentity(id, a)
			if i != j {
				r.Probe("identity-across-instances")
			}
		}
		w.checkAll("after event")
	}
	r.Add("events", int64(nev))
}
