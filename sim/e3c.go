package sim

// E3c: the concurrent keystore world (sub-batch C20c of C20). Several tasks use keystore instances over one
// datastore at the same time, under the E1 task scheduler: exactly one task runs, and it can be switched
// out before every statement of the keystore that uses the shared cache or the datastore. Those scheduling
// points do not exist in the source: the check's build step inserts them into the keystore file as it is
// now (cmd/yieldgen, handed to the compiler with -overlay), so that a rewritten GetKey is interleaved at
// its own cache and store calls, wherever they are.
//
// Scope: key-level operations (create of distinct ids, get, has). Creating identities concurrently for one
// new id is not part of this world.

import (
	"bytes"
	"context"
	cryptorand "crypto/rand"
	"fmt"

	ks "berty.tech/go-ipfs-log/keystore"
	ds "github.com/ipfs/go-datastore"
	dssync "github.com/ipfs/go-datastore/sync"
)

// ksYieldSites: number of scheduling points the build step inserted (0: a build without the overlay).
var ksYieldSites int

const (
	kcGet = iota
	kcHas
	kcCreate
	kcGetGhost
	kcHasGhost
)

type ksOp struct {
	kind int
	inst int
	id   string
	// result
	pub []byte
	has bool
	err error
}

func RunC20c(r *Run) {
	if ksYieldSites == 0 {
		r.Harness("C20c needs the keystore instrumented at build time (cmd/yieldgen overlay)")
	}
	saved := cryptorand.Reader
	cryptorand.Reader = &tapeRand{x: newXoshiro(uint64(r.Choose("key-entropy", 1<<30)))}
	defer func() { cryptorand.Reader = saved }()
	ctx := context.Background()
	// (the plain synchronised map datastore: the fault-injecting shim keeps unsynchronised counters, which under
	// the race build would be the harness' own data race)
	var d ds.Datastore = dssync.MutexWrap(ds.NewMapDatastore())
	ninst := 1 + r.Choose("ninst", 2)
	var inst []*ks.Keystore
	for i := 0; i < ninst; i++ {
		k, err := ks.NewKeystore(d)
		if err != nil {
			r.Harness("NewKeystore: %v", err)
		}
		inst = append(inst, k)
	}
	// setup (sequential): a population of keys around what one instance's cache holds, on either side of it
	n := 100 + r.Choose("nkeys", 60)
	model := map[string][]byte{}
	var ids []string
	for j := 0; j < n; j++ {
		id := fmt.Sprintf("k%d", j)
		key, err := inst[0].CreateKey(ctx, id)
		if err != nil {
			r.Violate("C20:create", "CreateKey(%q) failed without a fault: %v", id, err)
		}
		model[id] = pubRaw(key)
		ids = append(ids, id)
	}
	for j, nt := 0, r.Choose("touches", 6); j < nt; j++ {
		id := ids[r.Choose("touch", len(ids))]
		if _, err := inst[r.Choose("touch-inst", ninst)].GetKey(ctx, id); err != nil {
			r.Violate("C20:get-key-present", "GetKey(%q) of a created key failed: %v", id, err)
		}
	}
	// tasks
	ntasks := 2 + r.Choose("ntasks", 2)
	tasks := make([][]*ksOp, ntasks)
	var fresh []string
	for t := 0; t < ntasks; t++ {
		nops := 2 + r.Choose("nops", 4)
		for k := 0; k < nops; k++ {
			op := &ksOp{inst: r.Choose("inst", ninst)}
			switch x := r.Choose("ks-op", 12); {
			case x < 6:
				op.kind = kcGet
			case x < 8:
				op.kind = kcHas
			case x < 10:
				op.kind = kcCreate
				op.id = fmt.Sprintf("new%d-%d", t, k)
				fresh = append(fresh, op.id)
			case x < 11:
				op.kind, op.id = kcGetGhost, "ghost"
			default:
				op.kind, op.id = kcHasGhost, "ghost"
			}
			if op.kind == kcGet || op.kind == kcHas {
				// mostly the keys next in line for eviction (the oldest ones), sometimes any key
				switch r.Choose("which", 4) {
				case 0:
					op.id = ids[r.Choose("any", len(ids))]
				case 1:
					if len(fresh) > 0 {
						op.id = fresh[r.Choose("fresh", len(fresh))] // perhaps being created right now by another task
						break
					}
					fallthrough
				default:
					op.id = ids[r.Choose("old", 6)]
				}
			}
			tasks[t] = append(tasks[t], op)
		}
	}
	var names []string
	var fns []func(t *task)
	for ti := range tasks {
		ops := tasks[ti]
		names = append(names, fmt.Sprintf("K%d", ti))
		fns = append(fns, func(t *task) {
			for _, op := range ops {
				e1Yield("ks-op")
				k := inst[op.inst]
				switch op.kind {
				case kcGet, kcGetGhost:
					key, err := k.GetKey(ctx, op.id)
					op.err = err
					if err == nil && key != nil {
						op.pub = pubRaw(key)
					}
				case kcHas, kcHasGhost:
					op.has, op.err = k.HasKey(ctx, op.id)
				case kcCreate:
					key, err := k.CreateKey(ctx, op.id)
					op.err = err
					if err == nil {
						op.pub = pubRaw(key)
					}
				}
			}
		})
	}
	r.Logf("concurrent keystore world: %d instances, %d keys, %d tasks", ninst, n, ntasks)
	s := RunTasks(r, names, fns, nil)
	r.Nontrivial()
	if s.deadlock {
		r.Violate("C20:deadlock", "keystore tasks are blocked: %s", s.deadMsg)
	}
	created := map[string][]byte{}
	for _, ops := range tasks {
		for _, op := range ops {
			if op.kind == kcCreate {
				if op.err != nil {
					r.Violate("C20:create", "CreateKey(%q) failed without a fault while other tasks used the keystore: %v", op.id, op.err)
				}
				created[op.id] = op.pub
			}
		}
	}
	for ti, ops := range tasks {
		for _, op := range ops {
			want, old := model[op.id]
			switch op.kind {
			case kcGet:
				if !old {
					// a key another task creates in this very phase: absent or that key, nothing else
					if op.err == nil && !bytes.Equal(op.pub, created[op.id]) {
						r.Violate("C20:get-key-identical", "task %d: GetKey(%q) returned another key than the one its creator got", ti, op.id)
					}
					continue
				}
				if op.err != nil {
					r.Violate("C20:get-key-present", "task %d: GetKey(%q) of a key created earlier failed while other tasks used the keystore (%d keys, instance %d of %d): %v", ti, op.id, n, op.inst, ninst, op.err)
				}
				if !bytes.Equal(op.pub, want) {
					r.Violate("C20:get-key-identical", "task %d: GetKey(%q) returned a different key than the one created", ti, op.id)
				}
			case kcHas:
				if old && (op.err != nil || !op.has) {
					r.Violate("C20:has-key-present", "task %d: HasKey(%q) of a key created earlier says %v (err %v) while other tasks used the keystore", ti, op.id, op.has, op.err)
				}
			case kcGetGhost:
				if op.err == nil {
					r.Violate("C20:get-key-absent", "task %d: GetKey(%q) returned a key for an id never created", ti, op.id)
				}
			case kcHasGhost:
				if op.has {
					r.Violate("C20:has-key-absent", "task %d: HasKey(%q) reports an id never created as present", ti, op.id)
				}
			}
		}
	}
	// afterwards: everything created, before or during the concurrent phase, is there and unchanged, on the
	// instances that were used and on a new one
	for id, pub := range created {
		model[id] = pub
	}
	k2, err := ks.NewKeystore(d)
	if err != nil {
		r.Harness("NewKeystore: %v", err)
	}
	check := append(append([]string{}, ids[:8]...), fresh...)
	for i, k := range append(inst, k2) {
		for _, id := range check {
			key, err := k.GetKey(ctx, id)
			if err != nil {
				r.Violate("C20:get-key-present", "after the concurrent phase GetKey(%q) fails on instance %d: %v", id, i, err)
			}
			if !bytes.Equal(pubRaw(key), model[id]) {
				r.Violate("C20:get-key-identical", "after the concurrent phase instance %d returns a different key for %q than the one created", i, id)
			}
			if has, err := k.HasKey(ctx, id); err != nil || !has {
				r.Violate("C20:has-key-present", "after the concurrent phase HasKey(%q) on instance %d says %v (err %v)", id, i, has, err)
			}
		}
	}
	r.Probe("concurrent-keystore-tasks")
}
