//go:build go1.25

package sim

// E2-T: the timeout clause of C11 under a virtual clock (testing/synctest, go1.26.8 build only).
// The fetch runs inside a bubble with more worker slots than blocks (so the fetcher's main loop
// never holds its mutex while blocked on the semaphore, the one state a bubble cannot see through);
// stalled blocks wait for the context only, slow blocks answer after a virtual delay.

import (
	"context"
	"fmt"
	"sort"
	"testing"
	"testing/synctest"
	"time"

	ipfslog "berty.tech/go-ipfs-log"
	"berty.tech/go-ipfs-log/entry"
	"berty.tech/go-ipfs-log/iface"
	"github.com/ipfs/go-cid"
)

// VTT is the *testing.T of the virtual-time worker binary.
var VTT *testing.T

func init() {
	Props["C11T"] = RunC11T
	Props["C09T"] = RunC09T
	Props["C17T"] = RunC17T
}

// RunC09T: two loads overlap in (virtual) time on one store - one of them is given up by its caller
// (deadline or fetch timeout) while blocks are still on their way, the other one has all the time it
// needs and must rebuild exactly the log it was asked for, whatever the first one did.
// vtSized: worlds loaded inside a synctest bubble stay below the fetcher's default concurrency (32 requests in
// flight). Above it the fetch dispatcher waits for a slot while holding its mutex and a finished worker waits
// for that mutex; a goroutine waiting for a sync.Mutex does not count as durably blocked, so the bubble never
// becomes idle and virtual time never advances - a property of the bubble, not of the library (in real time
// the other workers' reads complete and free slots). Long logs are loaded by the non-virtual-time engines.
func vtSized(p *Profile) *Profile {
	p.Weights[opBurst], p.Weights[opFan] = 0, 0
	if p.MaxSteps > 30 {
		p.MaxSteps = 30
	}
	return p
}

func RunC09T(r *Run) { runOverlappingLoads(r, "C09") }

// C17T: the same bubble under C17 - an identifier the library returned must load to the state it was returned
// for, also while another load on the same store (and through the same codec object) is being given up.
func RunC17T(r *Run) { runOverlappingLoads(r, "C17") }

func runOverlappingLoads(r *Run, prop string) {
	if VTT == nil {
		r.Harness(prop + "T needs the virtual-time worker binary")
	}
	w := BuildWorld(r, vtSized(c09Profile()))
	w.ShareOpts = false // the two overlapping loads below are two callers: each has its own option values
	for s := 0; s < 4; s++ {
		r.T.Mark()
		if s > 0 && r.Choose("another-scenario", 3) == 0 {
			break
		}
		nb, na := w.pickSource("src"), w.pickSource("src-aborted")
		if nb == nil || na == nil {
			break
		}
		inB, inA := w.prepareInputs(nb), w.prepareInputs(na)
		st := w.St
		st.GetFaults = map[string]GetFault{}
		st.Delay = map[string]time.Duration{}
		var total time.Duration
		for _, h := range w.M.Order {
			d := time.Duration(1+r.Choose("block-ms", 9)) * time.Millisecond
			st.Delay[h] = d
			total += d
		}
		conc := len(w.M.Order) + 4
		spB := loadSpec{loader: w.pickLoader(inB), conc: conc}
		spA := loadSpec{loader: w.pickLoader(inA), conc: conc}
		// the first caller gives up somewhere inside the time its load would need
		giveUp := time.Duration(1+r.Choose("give-up-ms", int(total/time.Millisecond)+1)) * time.Millisecond
		byFetchTimeout := r.Choose("give-up-how", 2) == 0
		if byFetchTimeout {
			spA.timeout = giveUp
		}
		startB := time.Duration(r.Choose("second-starts-ms", int(giveUp/time.Millisecond)+1)) * time.Millisecond
		oB, oA := w.logOpts(), w.logOpts()
		var lB *ipfslog.IPFSLog
		var errB, errA error
		var bubblePanic interface{}
		st.VT = true
		func() {
			defer func() { bubblePanic = recover() }()
			synctest.Test(VTT, func(t *testing.T) {
				done := make(chan struct{})
				go func() {
					defer close(done)
					ctx := context.Background()
					if !byFetchTimeout {
						var cancel context.CancelFunc
						ctx, cancel = context.WithTimeout(ctx, giveUp)
						defer cancel()
					}
					_, errA = w.invokeLoader(ctx, inA, spA, Writers()[3], oA)
				}()
				time.Sleep(startB)
				lB, errB = w.invokeLoader(context.Background(), inB, spB, Writers()[4], oB)
				<-done
			})
		}()
		st.VT = false
		st.Reqs = nil
		r.Logf("vt-overlap: load of n%d via %s given up after %v (fetch timeout: %v, err=%v); load of n%d via %s started at %v err=%v",
			na.Idx, loaderNames[spA.loader], giveUp, byFetchTimeout, errA != nil, nb.Idx, loaderNames[spB.loader], startB, errB != nil)
		r.Fault("load-given-up")
		r.Probe("loads-overlapping-in-time")
		r.Nontrivial()
		if bubblePanic != nil {
			Tainted.Store(true)
			r.Violate("fetch-termination", "overlapping loads never returned: %v", bubblePanic)
		}
		if errB != nil || lB == nil {
			r.Violate(prop+":load-error", "%s of a stored log failed while another load on the same store was given up: %v", loaderNames[spB.loader], errB)
		}
		_, strict := w.M.Linear(inB.set, w.ByHash)
		if d := w.sameObs(w.observe(nb.Log), w.observe(lB), strict); d != "" {
			r.Violate(prop+":equal", "log rebuilt by %s while another load on the same store was given up differs from the original: %s", loaderNames[spB.loader], d)
		}
	}
	w.St.Delay = map[string]time.Duration{}
}

func RunC11T(r *Run) {
	if VTT == nil {
		r.Harness("C11T needs the virtual-time worker binary")
	}
	w := BuildWorld(r, vtSized(sourceProfile("C11")))
	for s := 0; s < 5; s++ {
		r.T.Mark()
		// the tape decides after each scenario whether another follows (0 = stop; an exhausted tape stops)
		if s > 0 && r.Choose("another-scenario", 3) == 0 {
			break
		}
		n := w.pickSource("src")
		if n == nil {
			break
		}
		all := sortedKeys(n.Set)
		heads := w.M.Heads(n.Set)
		st := w.St
		st.GetFaults = map[string]GetFault{}
		st.Alt = map[string][]byte{}
		st.Delay = map[string]time.Duration{}
		st.ErrFlavor = r.Choose("error-flavor", 3)
		timeout := []time.Duration{time.Second, 5 * time.Second, time.Minute}[r.Choose("timeout", 3)]
		bad := map[string]bool{}
		stalled := map[string]bool{}
		nf := r.Choose("nfaults", 4)
		for i := 0; i < nf; i++ {
			h := all[r.Choose("fault-block", len(all))]
			k := GetFault(1 + r.Choose("fault-kind", 4))
			st.GetFaults[h] = k
			if k == FaultCorrupt {
				st.Alt[h] = w.corruptAlt(h)
			}
		}
		for h, k := range st.GetFaults {
			bad[h] = true
			if k == FaultStall {
				stalled[h] = true
			}
		}
		// slow blocks: the longest chain of delays stays well below the timeout
		var maxDelay time.Duration
		ns := r.Choose("nslow", 4)
		for i := 0; i < ns; i++ {
			h := all[r.Choose("slow-block", len(all))]
			d := time.Duration(1+r.Choose("slow-ms", 9)) * timeout / time.Duration(20*len(all))
			st.Delay[h] = d
		}
		for _, d := range st.Delay {
			maxDelay += d
		}
		excluded := map[string]bool{}
		if r.Choose("exclude?", 3) == 0 {
			excluded[all[r.Choose("excl", len(all))]] = true
		}
		conc := len(all) + 4
		if conc < 32 && r.Choose("conc-default", 2) == 0 {
			conc = 0 // library default (32) is also above the number of blocks
		}
		var headCids []cid.Cid
		for _, h := range heads {
			headCids = append(headCids, w.Cids[h])
		}
		want := w.reachable(heads, bad, excluded)
		// does the fetch ever ask for a stalled block? only if it is reachable through retrievable entries
		reach := w.reachable(heads, map[string]bool{}, excluded)
		_ = reach
		askStalled := false
		for h := range stalled {
			// requested iff some retrievable, reachable entry links to it, or it is a requested head
			for _, hd := range heads {
				if hd == h && !excluded[h] {
					askStalled = true
				}
			}
			for x := range want {
				for _, l := range w.links(x) {
					if l == h && !excluded[h] {
						askStalled = true
					}
				}
			}
		}
		st.Reqs = nil
		var got []iface.IPFSLogEntry
		var elapsed time.Duration
		var bubblePanic interface{}
		st.VT = true
		func() {
			defer func() { bubblePanic = recover() }()
			synctest.Test(VTT, func(t *testing.T) {
				start := time.Now()
				got = entry.FetchAll(context.Background(), st, headCids, &entry.FetchOptions{Concurrency: conc, IO: w.IO, Timeout: timeout,
					ShouldExclude: func(c cid.Cid) bool { return excluded[c.String()] }})
				elapsed = time.Since(start)
			})
		}()
		st.VT = false
		r.Logf("vt-fetch n%d heads=%v timeout=%v faults=%d stalled=%d(asked %v) slow=%d -> %d entries after %v", n.Idx, w.M.Names(heads), timeout, len(bad), len(stalled), askStalled, len(st.Delay), len(got), elapsed)
		r.Add("virtual-ns", int64(elapsed))
		r.Nontrivial()
		if bubblePanic != nil {
			Tainted.Store(true)
			r.Violate("fetch-termination", "fetch with Timeout=%v never returned: %v", timeout, bubblePanic)
		}
		if elapsed > timeout {
			r.Violate("C11:timeout", "fetch with Timeout=%v returned after %v of (virtual) time", timeout, elapsed)
		}
		if askStalled {
			r.Probe("timeout-fired")
			if elapsed != timeout {
				r.Violate("C11:timeout", "a requested block never answers and Timeout=%v, but the fetch returned after %v", timeout, elapsed)
			}
		} else {
			r.Probe("returned-before-timeout")
			if elapsed > maxDelay {
				r.Violate("C11:waits-for-timer", "no block stalls (slowest chain %v) but the fetch with Timeout=%v returned after %v", maxDelay, timeout, elapsed)
			}
		}
		var gs []string
		for _, e := range got {
			gs = append(gs, e.GetHash().String())
		}
		if hasDup(gs) {
			r.Violate("C11:duplicate-entry", "fetch returned an entry twice: %v", w.M.Names(gs))
		}
		// (the request log is checked by the deterministic E2 engine: inside a bubble the order in which
		// concurrent workers finish is the Go scheduler's, not the tape's)
		sort.Strings(gs)
		if joinS(gs) != joinS(sortedKeys(want)) {
			r.Violate("C11:reachable-set", "fetch with Timeout=%v returned %v, reachable along retrievable non-excluded entries are %v", timeout, w.M.Names(gs), w.M.Names(sortedKeys(want)))
		}
	}
	w.St.GetFaults = map[string]GetFault{}
	_ = fmt.Sprintf
}
