// yieldgen: build-time instrumentation of the keystore for the concurrent keystore world (C20c).
//
// The keystore shares two things between its callers: an LRU cache (a concrete third-party type with its own
// mutex) and the datastore. Neither offers a seam between two consecutive uses inside one keystore
// operation, and a hook written into the source would only sit where today's code has its calls. So the
// check's build step rewrites the file as it is NOW: before every statement of keystore/keystore.go that
// calls a method of the cache or store field, a call to verifKSYield is inserted. The rewritten file, the
// file defining the (nil by default) hook and the file that connects the hook to the E1 scheduler are
// handed to the compiler through -overlay; /repo itself is not touched.
//
// usage: yieldgen <repo> <sim-dir> <out-dir>
package main

import (
	"bytes"
	"encoding/json"
	"fmt"
	"go/ast"
	"go/format"
	"go/parser"
	"go/token"
	"os"
	"path/filepath"
)

var fields = map[string]bool{"cache": true, "store": true}

// usesSharedState: the expression contains a call x.cache.M(...) or x.store.M(...).
func usesSharedState(n ast.Node) bool {
	found := false
	if n == nil {
		return false
	}
	ast.Inspect(n, func(x ast.Node) bool {
		if _, ok := x.(*ast.FuncLit); ok {
			return false
		}
		if c, ok := x.(*ast.CallExpr); ok {
			if s, ok := c.Fun.(*ast.SelectorExpr); ok {
				if in, ok := s.X.(*ast.SelectorExpr); ok && fields[in.Sel.Name] {
					found = true
				}
			}
		}
		return !found
	})
	return found
}

// head: the part of a statement that runs before any nested block of it.
func head(s ast.Stmt) []ast.Node {
	switch v := s.(type) {
	case *ast.IfStmt:
		return []ast.Node{v.Init, v.Cond}
	case *ast.ForStmt:
		return []ast.Node{v.Init, v.Cond}
	case *ast.RangeStmt:
		return []ast.Node{v.X}
	case *ast.SwitchStmt:
		return []ast.Node{v.Init, v.Tag}
	case *ast.TypeSwitchStmt:
		return []ast.Node{v.Init, v.Assign}
	case *ast.BlockStmt, *ast.SelectStmt, *ast.LabeledStmt, *ast.CaseClause, *ast.CommClause:
		return nil
	case *ast.DeferStmt, *ast.GoStmt:
		return nil
	}
	return []ast.Node{s}
}

type rewriter struct {
	fn    string
	count int
}

func (rw *rewriter) list(in []ast.Stmt) []ast.Stmt {
	var out []ast.Stmt
	for _, s := range in {
		hit := false
		for _, h := range head(s) {
			if h != nil && !isNilNode(h) && usesSharedState(h) {
				hit = true
			}
		}
		if hit {
			rw.count++
			out = append(out, &ast.ExprStmt{X: &ast.CallExpr{
				Fun:  ast.NewIdent("verifKSYield"),
				Args: []ast.Expr{&ast.BasicLit{Kind: token.STRING, Value: fmt.Sprintf("%q", fmt.Sprintf("%s:%d", rw.fn, rw.count))}},
			}})
		}
		rw.stmt(s)
		out = append(out, s)
	}
	return out
}

func isNilNode(n ast.Node) bool {
	switch v := n.(type) {
	case ast.Stmt:
		return v == nil
	case ast.Expr:
		return v == nil
	}
	return false
}

func (rw *rewriter) stmt(s ast.Stmt) {
	switch v := s.(type) {
	case *ast.BlockStmt:
		v.List = rw.list(v.List)
	case *ast.IfStmt:
		rw.stmt(v.Body)
		if v.Else != nil {
			rw.stmt(v.Else)
		}
	case *ast.ForStmt:
		rw.stmt(v.Body)
	case *ast.RangeStmt:
		rw.stmt(v.Body)
	case *ast.SwitchStmt:
		rw.stmt(v.Body)
	case *ast.TypeSwitchStmt:
		rw.stmt(v.Body)
	case *ast.SelectStmt:
		rw.stmt(v.Body)
	case *ast.CaseClause:
		v.Body = rw.list(v.Body)
	case *ast.CommClause:
		v.Body = rw.list(v.Body)
	case *ast.LabeledStmt:
		rw.stmt(v.Stmt)
	}
}

func must(err error) {
	if err != nil {
		fmt.Fprintln(os.Stderr, "yieldgen:", err)
		os.Exit(1)
	}
}

func main() {
	if len(os.Args) != 4 {
		fmt.Fprintln(os.Stderr, "usage: yieldgen <repo> <sim-dir> <out-dir>")
		os.Exit(2)
	}
	repo, sim, out := os.Args[1], os.Args[2], os.Args[3]
	must(os.MkdirAll(out, 0o755))
	src := filepath.Join(repo, "keystore", "keystore.go")
	fset := token.NewFileSet()
	f, err := parser.ParseFile(fset, src, nil, parser.ParseComments)
	must(err)
	total := 0
	for _, d := range f.Decls {
		fd, ok := d.(*ast.FuncDecl)
		if !ok || fd.Body == nil {
			continue
		}
		rw := &rewriter{fn: fd.Name.Name}
		fd.Body.List = rw.list(fd.Body.List)
		total += rw.count
	}
	var buf bytes.Buffer
	f.Comments = nil // (positions of free-floating comments no longer match the statement lists)
	must(format.Node(&buf, fset, f))
	gen := filepath.Join(out, "keystore.go")
	must(os.WriteFile(gen, buf.Bytes(), 0o644))
	hook := filepath.Join(out, "zz_verif_ksyield.go")
	must(os.WriteFile(hook, []byte(`package keystore

// VerifYield, when set, is called before every statement of this package that uses the shared cache or the
// datastore (inserted at build time by the verification harness; nil in every other build).
var VerifYield func(site string)

func verifKSYield(site string) {
	if f := VerifYield; f != nil {
		f(site)
	}
}
`), 0o644))
	conn := filepath.Join(out, "zz_ksyield_hook.go")
	must(os.WriteFile(conn, []byte(fmt.Sprintf(`package sim

import ks "berty.tech/go-ipfs-log/keystore"

func init() {
	ks.VerifYield = e1Yield
	ksYieldSites = %d
}
`, total)), 0o644))
	ov := map[string]map[string]string{"Replace": {
		src: gen,
		filepath.Join(repo, "keystore", "zz_verif_ksyield.go"): hook,
		filepath.Join(sim, "zz_ksyield_hook.go"):               conn,
	}}
	b, _ := json.MarshalIndent(ov, "", " ")
	must(os.WriteFile(filepath.Join(out, "overlay.json"), b, 0o644))
	fmt.Printf("yieldgen: %d scheduling points inserted into %s\n", total, src)
}
