// simworker: the worker executable of the simulation checks (see sim.WorkerMain).
package main

import (
	"flag"

	"verif/sim"
)

func main() {
	f := sim.RegisterWorkerFlags()
	flag.Parse()
	sim.WorkerMain(f)
}
