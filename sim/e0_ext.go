package sim

import (
	"bytes"
	"context"
	"fmt"
	"math"
	"runtime/debug"
	"sort"
	"sync/atomic"

	ipfslog "berty.tech/go-ipfs-log"
	"berty.tech/go-ipfs-log/accesscontroller"
	"berty.tech/go-ipfs-log/enc"
	"berty.tech/go-ipfs-log/entry"
	"berty.tech/go-ipfs-log/identityprovider"
	"berty.tech/go-ipfs-log/iface"
	"berty.tech/go-ipfs-log/io/cbor"
	"berty.tech/go-ipfs-log/io/pb"
	"github.com/ipfs/go-cid"
)

type byzPlan struct{}

type byzBatch struct {
	src    *ipfslog.IPFSLog
	s, rcv *Node
}

func linkKeyBytes(k byte) []byte {
	b := make([]byte, 32)
	for i := range b {
		b[i] = k*37 + byte(i)
	}
	return b
}

// faultyKey: the shared link key behind a seam that can make sealing fail (remote keystore, HSM).
type faultyKey struct {
	enc.SharedKey
	failSeal *bool
}

func (f *faultyKey) SealWithNonce(msg []byte, nonce []byte) ([]byte, error) {
	if f.failSeal != nil && *f.failSeal {
		return nil, enc.ErrCannotEncrypt
	}
	return f.SharedKey.SealWithNonce(msg, nonce)
}

var sealFault bool

func linkIO(key []byte) iface.IO {
	// the key is handed over in a scratch buffer that is wiped afterwards, as a careful caller would
	buf := append([]byte(nil), key...)
	sk, err := enc.NewSecretbox(buf)
	for i := range buf {
		buf[i] = 0
	}
	if err != nil {
		panic(&harnessError{"secretbox: " + err.Error()})
	}
	// the options value is the caller's: it is wiped (and could be reused for another codec) once the codec
	// has been derived from it
	o := &cbor.Options{LinkKey: &faultyKey{SharedKey: sk, failSeal: &sealFault}}
	io := defaultIO().ApplyOptions(o)
	o.LinkKey = nil
	return io
}

func pbIO() iface.IO {
	io, err := pb.IO(&entry.Entry{}, &entry.LamportClock{})
	if err != nil {
		panic(&harnessError{"pb.IO: " + err.Error()})
	}
	return io
}

func (w *World) dispatchExt(op int) {
	switch op {
	case opIter:
		w.doIter()
	case opBounded:
		w.doBounded()
	case opByz:
		w.doByz()
	case opDenied:
		w.doDenied()
	case opPolicy:
		w.doPolicy()
	case opTamper:
		w.doTamper()
	case opReader:
		w.doReader()
	}
}

func (w *World) finish() { w.finishCrash() }

// ------------------------------------------------------------------ C15 iterator

func (w *World) descLess(a, b *MEntry) bool { // a newer than b
	if a.Time != b.Time {
		return a.Time > b.Time
	}
	if w.M.TimeHash {
		return a.Hash > b.Hash
	}
	if a.ClockID != b.ClockID {
		return a.ClockID > b.ClockID
	}
	return a.Hash > b.Hash
}

// doIterTruncated: the default upper bound ("the heads") on a log object whose heads were last set by
// a size-bounded merge. Every kept entry has all its successors kept, so the default iteration emits
// exactly the entries the log holds.
func (w *World) doIterTruncated() {
	a, b := w.pickUp("itr-a"), w.pickUp("itr-b")
	r := w.R
	pick := r.Choose("itr-n", 1<<16)
	if a == nil || b == nil || a == b {
		return
	}
	u := copySet(a.Set)
	union(u, b.Set)
	bound := pick % (len(u) + 2)
	c := w.clone(a, true)
	if _, err := c.Join(w.clone(b, true), bound); err != nil {
		r.Violate("C15:setup", "bounded merge of honest logs returned %v", err)
	}
	held := hashSet(c.GetEntries())
	ch := make(chan iface.IPFSLogEntry, len(u)+8)
	var err error
	out := Protect(func() { err = c.Iterator(&ipfslog.IteratorOptions{}, ch) })
	r.Logf("iter on n%d+n%d merged with bound %d: holds %d", a.Idx, b.Idx, bound, len(held))
	r.Probe("iter-after-bounded-merge")
	if out.Status == "violation" {
		r.Violate("C15:panic", "Iterator on a log truncated by a bounded merge panicked: %s", out.Msg)
	} else if out.Status != "ok" {
		r.Harness("%s", out.Msg)
	}
	if err != nil {
		r.Violate("C15:error", "Iterator with default options on a log truncated by a bounded merge returned %v", err)
	}
	var got []string
	for drained := false; !drained; {
		select {
		case e, ok := <-ch:
			if !ok {
				drained = true
			} else {
				got = append(got, e.GetHash().String())
			}
		default:
			r.Violate("C15:not-closed", "Iterator returned success without closing the output channel (truncated log, %d emitted)", len(got))
		}
	}
	for _, h := range got {
		if !held[h] {
			r.Violate("C15:range", "Iterator with the default upper bound emitted %s, which the log (truncated to %d by a bounded merge) does not hold", w.M.Name(h), len(held))
		}
	}
	if hasDup(got) || len(got) != len(held) {
		r.Violate("C15:count", "Iterator with default options on a log holding %d entries (after a bounded merge) emitted %d", len(held), len(got))
	}
}

func (w *World) doIter() {
	if w.R.Choose("iter-truncated", 6) == 0 {
		w.doIterTruncated()
		return
	}
	n := w.pickUp("iter-node")
	r := w.R
	mode := r.Choose("iter-upper", 8) // 0-1 default, 2-4 LTE, 5-6 LT, 7 unknown
	nb := 1 + r.Choose("iter-nbounds", 3)
	picks := []int{r.Choose("iter-b0", 1<<16), r.Choose("iter-b1", 1<<16), r.Choose("iter-b2", 1<<16)}
	lower := r.Choose("iter-lower", 3)
	lowerPick := r.Choose("iter-lowpick", 1<<16)
	amtMode := r.Choose("iter-amount-mode", 3) // 0 absent, 1 in 0..|R|+2, 2 zero or huge
	amtPick := r.Choose("iter-amount", 1<<16)
	capPick := r.Choose("iter-cap", 1<<16)
	if n == nil || len(n.Set) == 0 {
		return
	}
	m := w.M
	all := sortedKeys(n.Set)
	opts := &ipfslog.IteratorOptions{}
	var starts []string
	desc := ""
	unknown := false
	switch {
	case mode <= 1:
		starts = m.Heads(n.Set)
		desc = "heads"
	case mode <= 4:
		for i := 0; i < nb; i++ {
			h := all[picks[i]%len(all)]
			opts.LTE = append(opts.LTE, w.Cids[h])
			starts = append(starts, h)
		}
		desc = fmt.Sprintf("lte%v", m.Names(starts))
	case mode <= 6:
		h := all[picks[0]%len(all)]
		opts.LT = []cid.Cid{w.Cids[h]}
		starts = append(starts, m.Reg[h].Next...)
		desc = fmt.Sprintf("lt[%s]", m.Name(h))
	default:
		// an upper bound the log does not hold
		var foreign []string
		for _, h := range m.Order {
			if !n.Set[h] {
				foreign = append(foreign, h)
			}
		}
		if len(foreign) == 0 {
			w.ensureForeign()
			for _, e := range liveSlice(w.Foreign.Values()) {
				w.Cids[e.GetHash().String()] = e.GetHash()
				foreign = append(foreign, e.GetHash().String())
			}
		}
		h := foreign[picks[0]%len(foreign)]
		if picks[1]%2 == 0 {
			opts.LTE = []cid.Cid{w.Cids[h]}
		} else {
			opts.LT = []cid.Cid{w.Cids[h]}
		}
		unknown = true
		desc = "unknown-upper"
	}
	// range: causal past of the starts inside the log, newest first
	R := m.PastIn(n.Set, starts)
	D := make([]*MEntry, 0, len(R))
	for h := range R {
		D = append(D, m.Reg[h])
	}
	sort.Slice(D, func(i, j int) bool { return w.descLess(D[i], D[j]) })
	_, strict := m.Linear(R, w.ByHash)
	related := 0
	if len(opts.LTE) > 1 {
		for i, a := range starts {
			pa := m.Past(a)
			for j, b := range starts {
				if i != j && (pa[b] || a == b) {
					related++
				}
			}
		}
	}
	exp := D
	if unknown || len(D) == 0 {
		lower = 0
	}
	if lower > 0 {
		idx := lowerPick % len(D)
		x := D[idx]
		if lower == 1 {
			opts.GTE = w.Cids[x.Hash]
			exp = D[:idx+1]
			desc += "+gte" + m.Name(x.Hash)
		} else {
			opts.GT = w.Cids[x.Hash]
			exp = D[:idx]
			desc += "+gt" + m.Name(x.Hash)
		}
	}
	amount := -1
	switch amtMode {
	case 1:
		amount = amtPick % (len(D) + 3)
	case 2:
		if amtPick%2 == 0 {
			amount = 0
		} else {
			amount = len(n.Set) + 1 + amtPick%5
		}
	}
	if amount >= 0 {
		opts.Amount = &amount
		desc += fmt.Sprintf("+amount%d", amount)
		if amount < len(exp) {
			if lower > 0 {
				exp = exp[len(exp)-amount:]
			} else {
				exp = exp[:amount]
			}
		}
		if amount == 0 {
			r.Probe("iter-amount-zero")
		} else if amount > len(D) {
			r.Probe("iter-amount-beyond-range")
		}
	}
	capN := capPick % (len(D) + 2)
	ch := make(chan iface.IPFSLogEntry, capN)
	type iterRes struct {
		err error
		pan *fetchPanic
	}
	done := make(chan iterRes, 1)
	go func() {
		defer func() {
			if x := recover(); x != nil {
				done <- iterRes{pan: &fetchPanic{x, string(debug.Stack())}}
			}
		}()
		done <- iterRes{err: n.Log.Iterator(opts, ch)}
	}()
	amountGiven := amount
	var got []string
	closed := false
	var res iterRes
	finished := false
	for !finished {
		select {
		case e, ok := <-ch:
			if !ok {
				closed = true
				res = <-done
				finished = true
			} else {
				got = append(got, e.GetHash().String())
			}
		case res = <-done:
			finished = true
			// producer returned: whatever it sent is buffered; drain without blocking
			for drained := false; !drained; {
				select {
				case e, ok := <-ch:
					if !ok {
						closed = true
						drained = true
					} else {
						got = append(got, e.GetHash().String())
					}
				default:
					drained = true
				}
			}
		}
	}
	r.Logf("iter n%d %s cap=%d |range|=%d -> %d emitted closed=%v err=%v", n.Idx, desc, capN, len(D), len(got), closed, res.err != nil)
	if amount != amountGiven {
		r.Violate("C15:caller-amount-modified", "Iterator(%s) rewrote the caller's amount from %d to %d", desc, amountGiven, amount)
	}
	if res.pan != nil {
		site, _ := panicSite(res.pan.stack)
		r.Violate("C15:panic", "Iterator panicked: %v | %s (options %s, range %d)", res.pan.val, site, desc, len(D))
	}
	if unknown {
		if res.err == nil {
			r.Violate("C15:unknown-bound", "unknown upper bound was not reported as an error (%s)", desc)
		}
		return
	}
	if res.err != nil {
		r.Violate("C15:error", "Iterator returned %v for valid options %s", res.err, desc)
	}
	if !closed {
		r.Violate("C15:not-closed", "Iterator returned success without closing the output channel (options %s, %d emitted)", desc, len(got))
	}
	if hasDup(got) {
		r.Violate("C15:duplicate", "Iterator emitted an entry twice (%s): %v", desc, m.Names(got))
	}
	var want []string
	for _, e := range exp {
		want = append(want, e.Hash)
	}
	if !strict {
		r.Probe("iter-ties")
		// order among tied entries is not determined: only what does not depend on it is required
		key := func(h string) string { return fmt.Sprintf("%020d/%s", m.Reg[h].Time, m.Reg[h].ClockID) }
		emitted := map[string]bool{}
		for _, h := range got {
			if !R[h] {
				r.Violate("C15:range", "Iterator(%s) emitted %s which is outside the causal range", desc, m.Name(h))
			}
			emitted[h] = true
		}
		if amount >= 0 && len(got) > amount {
			r.Violate("C15:count", "Iterator(%s) emitted %d entries, at most %d allowed", desc, len(got), amount)
		}
		if lower > 0 {
			x := opts.GTE
			if lower == 2 {
				x = opts.GT
			}
			kx := key(x.String())
			for _, h := range got {
				if key(h) < kx {
					r.Violate("C15:range", "Iterator(%s) emitted %s which is older than the lower bound", desc, m.Name(h))
				}
			}
			if lower == 2 && emitted[x.String()] {
				r.Violate("C15:range", "Iterator(%s) emitted its exclusive lower bound", desc)
			}
			if amount < 0 {
				for h := range R {
					if key(h) > kx && !emitted[h] {
						r.Violate("C15:range", "Iterator(%s) did not emit %s which is newer than the lower bound", desc, m.Name(h))
					}
				}
			}
		} else if amount < 0 && joinS(sortedCopy(got)) != joinS(sortedCopy(want)) {
			r.Violate("C15:range", "Iterator(%s) emitted %v, the causal range is %v", desc, m.Names(got), m.Names(want))
		}
		return
	}
	if related > 0 && amount >= 0 && lower == 0 {
		// several causally related inclusive bounds: "at most amount", newest first, small shortfall tolerated
		r.Probe("iter-related-bounds")
		if len(got) > len(want) || len(got) < len(want)-(len(opts.LTE)-1) || joinS(got) != joinS(want[:len(got)]) {
			r.Violate("C15:range", "Iterator(%s) emitted %v, expected the newest %d (or up to %d fewer) of %v", desc, m.Names(got), len(want), len(opts.LTE)-1, m.Names(want))
		}
		return
	}
	if joinS(got) != joinS(want) {
		r.Violate("C15:range", "Iterator(%s) emitted %v, expected %v", desc, m.Names(got), m.Names(want))
	}
}

// ------------------------------------------------------------------ C16 bounded merge

func (w *World) doBounded() {
	a, b := w.pickUp("bnd-a"), w.pickUp("bnd-b")
	pick := w.R.Choose("bnd-n", 1<<16)
	if a == nil || b == nil || a == b {
		return
	}
	r := w.R
	m := w.M
	u := copySet(a.Set)
	union(u, b.Set)
	total := len(u)
	nBound := pick % (total + 4)
	if pick%16 == 15 {
		// any n >= 0 is a legal bound; the largest ones must not be used as an allocation size
		nBound = []int{math.MaxInt64, math.MaxInt64 / 2, math.MaxInt64 - 1}[(pick/16)%3]
		w.R.Probe("bound-huge")
	}
	lin, strict := m.Linear(u, w.ByHash)
	if !strict {
		// reference = what the unbounded merge produces on identical clones
		ref := w.clone(a, true)
		if _, err := ref.Join(w.clone(b, true), -1); err != nil {
			r.Violate("C16:join-error", "unbounded reference merge failed: %v", err)
		}
		lin = hashSeq(ref.Values())
		r.Probe("bounded-ties")
	}
	k := nBound
	if k > total {
		k = total
		r.Probe("bound-beyond-total")
	}
	if nBound == 0 {
		r.Probe("bound-zero")
	}
	kept := lin[len(lin)-k:]
	named := map[string]bool{}
	for _, h := range kept {
		for _, nx := range m.Reg[h].Next {
			named[nx] = true
		}
	}
	var wantHeads []string
	for _, h := range kept {
		if !named[h] {
			wantHeads = append(wantHeads, h)
		}
	}
	sort.Strings(wantHeads)
	c := w.clone(a, true)
	src := w.clone(b, true)
	var err error
	out := Protect(func() { _, err = c.Join(src, nBound) })
	r.Logf("bounded n%d+n%d bound=%d total=%d", a.Idx, b.Idx, nBound, total)
	if out.Status == "violation" {
		r.Violate("C16:panic", "Join with size bound %d (merged size %d) panicked: %s", nBound, total, out.Msg)
	} else if out.Status != "ok" {
		r.Harness("%s", out.Msg)
	}
	if err != nil {
		r.Violate("C16:join-error", "bounded merge of honest logs returned %v", err)
	}
	vals := hashSeq(c.Values())
	if strict {
		if joinS(vals) != joinS(kept) {
			r.Violate("C16:values", "bound %d of %d: values %v, the last %d of the full linearisation are %v", nBound, total, m.Names(vals), k, m.Names(kept))
		}
	} else {
		// comparator ties: which of several tied entries sits at the cut, and their relative order, is not
		// determined; the kept multiset of (time, id) keys and sortedness are
		key := func(h string) string { return fmt.Sprintf("%020d/%s", m.Reg[h].Time, m.Reg[h].ClockID) }
		var gk, wk []string
		for _, h := range vals {
			if !u[h] {
				r.Violate("C16:values", "bound %d of %d: value %s is not in the merged set", nBound, total, m.Name(h))
			}
			gk = append(gk, key(h))
		}
		for _, h := range kept {
			wk = append(wk, key(h))
		}
		// which entries are kept is determined even under ties: the unbounded merge of identical clones
		// linearises the same way the bounded one does before it cuts
		if joinS(sortedCopy(vals)) != joinS(sortedCopy(kept)) {
			r.Violate("C16:values", "bound %d of %d (ties): the log holds %v, the last %d of the linearisation the unbounded merge produces are %v", nBound, total, m.Names(sortedCopy(vals)), k, m.Names(sortedCopy(kept)))
		}
		if !sort.StringsAreSorted(gk) || hasDup(vals) || joinS(gk) != joinS(sortedCopy(wk)) {
			r.Violate("C16:values", "bound %d of %d (ties): values %v are not the last %d by (time, id); full linearisation %v", nBound, total, m.Names(vals), k, m.Names(lin))
		}
		named = map[string]bool{}
		for _, h := range vals {
			for _, nx := range m.Reg[h].Next {
				named[nx] = true
			}
		}
		wantHeads = nil
		for _, h := range vals {
			if !named[h] {
				wantHeads = append(wantHeads, h)
			}
		}
		sort.Strings(wantHeads)
	}
	heads := sortedCopy(hashSeq(c.Heads()))
	if joinS(heads) != joinS(wantHeads) {
		r.Violate("C16:heads", "bound %d of %d: heads %v, unreferenced among the kept entries are %v", nBound, total, m.Names(heads), m.Names(wantHeads))
	}
	if c.Len() != k || len(hashSet(c.GetEntries())) != k {
		r.Violate("C16:len", "bound %d of %d: log holds %d entries, want %d", nBound, total, c.Len(), k)
	}
	if len(wantHeads) > 1 {
		r.Probe("bounded-forked-result")
	}
	// further bounded merges into the SAME (now possibly non-closed) object: whatever its history, a
	// bounded merge must not panic, must leave at most n entries, all of them in the linearised view,
	// with heads equal to the unreferenced entries among them
	for round := 0; round < r.Choose("bnd-chain", 3); round++ {
		o := w.pickUp("bnd-other")
		n2 := r.Choose("bnd-n2", total+6)
		if o == nil {
			break
		}
		if n2 == total+4 {
			n2 = math.MaxInt64
		}
		unbounded := n2 == total+5 // an ordinary merge into the truncated object
		if unbounded {
			n2 = -1
		}
		// what this merge brings in: what it reaches from the other log's heads before it meets an entry
		// the (no longer causally closed) log already holds
		before := hashSet(c.GetEntries())
		merged := copySet(before)
		stack := append([]string(nil), m.Heads(o.Set)...)
		for len(stack) > 0 {
			h := stack[len(stack)-1]
			stack = stack[:len(stack)-1]
			if merged[h] || !o.Set[h] {
				continue
			}
			merged[h] = true
			stack = append(stack, m.Reg[h].Next...)
		}
		var err error
		out := Protect(func() { _, err = c.Join(w.clone(o, true), n2) })
		if out.Status == "violation" {
			r.Violate("C16:panic", "a further Join with size bound %d on an already truncated log panicked: %s", n2, out.Msg)
		} else if out.Status != "ok" {
			r.Harness("%s", out.Msg)
		}
		if err != nil {
			r.Violate("C16:join-error", "bounded merge of honest logs returned %v", err)
		}
		held := hashSet(c.GetEntries())
		vals := hashSeq(c.Values())
		if (!unbounded && len(held) > n2) || c.Len() != len(held) {
			r.Violate("C16:len", "after a further merge with bound %d the log holds %d entries (Len %d)", n2, len(held), c.Len())
		}
		wantN := n2
		if unbounded || wantN > len(merged) {
			wantN = len(merged)
		}
		if len(held) != wantN {
			r.Violate("C16:len", "a further merge with bound %d into a log of %d entries reached %d entries in all, but left %d: want min(n, total) = %d", n2, len(before), len(merged), len(held), wantN)
		}
		for h := range held {
			if !merged[h] {
				r.Violate("C16:values", "after a further merge with bound %d the log holds %s, which neither log held", n2, m.Name(h))
			}
		}
		if lin2, strict2 := m.Linear(merged, w.ByHash); strict2 && joinS(sortedKeys(held)) != joinS(sortedCopy(lin2[len(lin2)-wantN:])) {
			r.Violate("C16:values", "a further merge with bound %d kept %v, the last %d of the merged linearisation are %v", n2, m.Names(sortedKeys(held)), wantN, m.Names(sortedCopy(lin2[len(lin2)-wantN:])))
		}
		if joinS(sortedCopy(vals)) != joinS(sortedKeys(held)) {
			r.Violate("C16:values", "after a further merge with bound %d the log holds %v but its linearised view is %v", n2, m.Names(sortedKeys(held)), m.Names(vals))
		}
		nm := map[string]bool{}
		for h := range held {
			for _, nx := range m.Reg[h].Next {
				nm[nx] = true
			}
		}
		var wh []string
		for h := range held {
			if !nm[h] {
				wh = append(wh, h)
			}
		}
		sort.Strings(wh)
		if hs := sortedCopy(hashSeq(c.Heads())); joinS(hs) != joinS(wh) {
			r.Violate("C16:heads", "after a further merge with bound %d heads are %v, unreferenced among the held entries are %v", n2, m.Names(hs), m.Names(wh))
		}
		r.Probe("chained-bounded-merges")
	}
}

// ------------------------------------------------------------------ C06 / C07

// policy is an access controller the harness can configure.
type policy struct {
	kind     int // 0 permit, 1 deny writer, 2 deny payload prefix, 3 deny nth call
	writerID string
	prefix   []byte
	nth      int64
	calls    atomic.Int64
	denied   atomic.Int64
}

func (p *policy) CanAppend(e accesscontroller.LogEntry, _ identityprovider.Interface, _ accesscontroller.CanAppendAdditionalContext) error {
	c := p.calls.Add(1)
	deny := false
	switch p.kind {
	case 1:
		deny = e.GetIdentity() != nil && e.GetIdentity().ID == p.writerID
	case 2:
		deny = bytes.HasPrefix(e.GetPayload(), p.prefix)
	case 3:
		deny = c == p.nth
	}
	if deny {
		p.denied.Add(1)
		return fmt.Errorf("policy: append denied")
	}
	return nil
}

func (p *policy) deniesModel(e iface.IPFSLogEntry) bool {
	switch p.kind {
	case 1:
		return e.GetIdentity() != nil && e.GetIdentity().ID == p.writerID
	case 2:
		return bytes.HasPrefix(e.GetPayload(), p.prefix)
	}
	return false
}

// modelDifference: the entries a merge of (entries, heads) into a replica holding
// `have` considers: reachable from the heads through entries of the source that the
// replica lacks and that carry the log's id.
func (w *World) modelDifference(src map[string]iface.IPFSLogEntry, heads []string, have map[string]bool) []string {
	seen := map[string]bool{}
	var out []string
	stack := append([]string(nil), heads...)
	for _, h := range heads {
		seen[h] = true
	}
	for len(stack) > 0 {
		h := stack[0]
		stack = stack[1:]
		e, ok := src[h]
		if !ok || have[h] || e.GetLogID() != w.LogID {
			continue
		}
		out = append(out, h)
		for _, nx := range e.GetNext() {
			s := nx.String()
			if !seen[s] && !have[s] {
				seen[s] = true
				stack = append(stack, s)
			}
		}
	}
	return out
}

// freshBatch appends k honest entries on a scratch clone of n (they are new to every replica).
func (w *World) freshBatch(n *Node, k int) *ipfslog.IPFSLog {
	c := w.clone(n, true)
	for i := 0; i < k; i++ {
		e, err := c.Append(w.ctx, w.payload(), &ipfslog.AppendOptions{PointerCount: w.pointerCount()})
		if err != nil {
			w.R.Violate(w.P.Prop+":append-error", "append on a scratch clone failed: %v", err)
		}
		w.register(e)
	}
	return c
}

func (w *World) doByz() {
	s, rcv := w.pickUp("byz-sender"), w.pickUp("byz-receiver")
	r := w.R
	extra := r.Choose("byz-batch", 5)
	batch := []int{0, 1, 3, 8, 40}[extra]
	nbad := 1 + r.Choose("byz-nbad", 3)
	if r.Choose("byz-honest", 6) == 0 {
		nbad = 0
	}
	if s == nil || rcv == nil || s == rcv {
		return
	}
	retry := w.lastByz != nil && r.Choose("byz-retry", 3) == 0
	var src *ipfslog.IPFSLog
	if retry {
		// the sender tries again with the same batch (entries the receiver may already have looked at),
		// tampered differently this time
		src, s, rcv = w.lastByz.src, w.lastByz.s, w.lastByz.rcv
		if !s.Up || !rcv.Up {
			return
		}
		r.Probe("byz-retry-of-earlier-batch")
	} else {
		src = w.freshBatch(s, batch)
		w.lastByz = &byzBatch{src: src, s: s, rcv: rcv}
	}
	srcEntries := map[string]iface.IPFSLogEntry{}
	for _, e := range liveSlice(src.GetEntries()) {
		srcEntries[e.GetHash().String()] = e
	}
	heads := hashSeq(src.Heads())
	if r.Choose("byz-foreign-behind-head", 5) == 0 && w.Codec != "pb" {
		// a correctly signed, permitted entry of ANOTHER log, reachable only behind a (valid) head of this log
		fe, err := entry.CreateEntryWithIO(w.ctx, w.St, s.W.ID, &entry.Entry{LogID: "other-log", Payload: w.payload(),
			Clock: entry.NewLamportClock(s.W.ID.PublicKey, 1)}, nil, w.IO)
		if err != nil {
			r.Harness("foreign entry: %v", err)
		}
		var nx []cid.Cid
		for _, h := range heads {
			nx = append(nx, w.Cids[h])
		}
		nx = append(nx, fe.GetHash())
		he, err := entry.CreateEntryWithIO(w.ctx, w.St, s.W.ID, &entry.Entry{LogID: w.LogID, Payload: w.payload(), Next: nx,
			Clock: entry.NewLamportClock(s.W.ID.PublicKey, src.Clock.GetTime()+1)}, nil, w.IO)
		if err != nil {
			r.Harness("crafted head: %v", err)
		}
		w.Cids[fe.GetHash().String()] = fe.GetHash()
		w.register(he)
		srcEntries[fe.GetHash().String()] = fe
		srcEntries[he.GetHash().String()] = he
		heads = []string{he.GetHash().String()}
		r.Fault("valid-foreign-entry-behind-head")
	}
	cand := w.modelDifference(srcEntries, heads, rcv.Set)
	others := Writers()
	var badNames []string
	bad := map[string]int{}
	if len(cand) > 0 {
		for i := 0; i < nbad; i++ {
			// position: head, root, or anywhere in the batch
			var h string
			switch r.Choose("byz-pos", 3) {
			case 0:
				h = cand[0]
			case 1:
				h = cand[len(cand)-1]
			default:
				h = cand[r.Choose("byz-idx", len(cand))]
			}
			kind := r.Choose("byz-kind", nBad)
			if _, dup := bad[h]; dup {
				continue
			}
			if kind == tNextDup || kind == tRefsDup {
				// a repeated link does not survive the copy a log makes of what it is given: what is merged is
				// the genuine entry again. These two kinds are for Verify on the entry itself (C07)
				continue
			}
			o := srcEntries[cand[r.Choose("byz-other", len(cand))]]
			if o.GetHash().String() == h {
				o = nil
			}
			ok := others[r.Choose("byz-otherkey", len(others))].ID.PublicKey
			tr := tamper(r, srcEntries[h], kind, o, ok)
			if !tr.applied || tr.invisible {
				continue
			}
			srcEntries[h] = tr.e
			bad[h] = kind
			badNames = append(badNames, fmt.Sprintf("%s:%s", w.M.Name(h), tamperNames[kind]))
			r.Fault("tamper-" + tamperNames[kind])
		}
	}
	// what the receiver must consider, given the (possibly altered) link structure
	cand = w.modelDifference(srcEntries, heads, rcv.Set)
	anyBad := false
	for _, h := range cand {
		if _, b := bad[h]; b {
			anyBad = true
		}
	}
	om := entry.NewOrderedMap()
	for _, h := range sortedKeysE(srcEntries) {
		om.Set(h, srcEntries[h])
	}
	var headEntries []iface.IPFSLogEntry
	for _, h := range heads {
		headEntries = append(headEntries, srcEntries[h])
	}
	if r.Choose("byz-ghost-head", 6) == 0 && w.Codec != "pb" {
		// the source claims a head that its entry index does not hold (valid, right log id): it is not a
		// candidate, so it must not become observable in the receiver, not even as a head
		ge, err := entry.CreateEntryWithIO(w.ctx, w.St, s.W.ID, &entry.Entry{LogID: w.LogID, Payload: w.payload(),
			Clock: entry.NewLamportClock(s.W.ID.PublicKey, src.Clock.GetTime()+2)}, nil, w.IO)
		if err != nil {
			r.Harness("ghost head: %v", err)
		}
		w.register(ge)
		headEntries = append(headEntries, ge)
		r.Fault("ghost-head-not-in-source-index")
	}
	o := w.logOpts()
	o.Entries = om
	o.Heads = headEntries
	evil := w.newLog(s.W, o)
	// the merge goes into a scratch clone of the receiver: a batch whose history is cut by an
	// invalid entry legitimately leaves a hole, and the rest of the world assumes closed logs
	dst := w.clone(rcv, true)
	dstSet := copySet(rcv.Set)
	if anyBad && (r.Choose("byz-into-real-node", 2) == 0 || !w.P.Check["C06"]) {
		// a merge that must be refused can target the replica itself: it has to leave it untouched,
		// and the rest of the run continues on whatever it really left
		dst = rcv.Log
		r.Probe("refused-merge-into-live-replica")
	}
	before := w.observe(dst)
	lenBefore := dst.Len()
	clockBefore := dst.Clock.GetTime()
	// a batch that must be refused must be refused whatever size bound the receiver merges with (the bound says
	// how much is kept, not how much is checked)
	size := -1
	if sz := r.Choose("byz-size", 2*(len(cand)+2)); anyBad && sz <= len(cand)+1 {
		size = sz
		r.Probe("invalid-batch-offered-to-bounded-merge")
	}
	_, err := dst.Join(evil, size)
	r.Logf("byz n%d->n%d batch=%d candidates=%d bad=%v size=%d err=%v", s.Idx, rcv.Idx, batch, len(cand), badNames, size, err != nil)
	if len(cand) > 8 && anyBad {
		r.Probe("bad-entry-in-batch-over-8")
	}
	if anyBad {
		if err == nil {
			r.Violate(w.P.Prop+":admitted-invalid", "merge (size bound %d) admitted a batch of %d entries containing invalid entries %v", size, len(cand), badNames)
		}
		_, strict := w.M.Linear(rcv.Set, w.ByHash)
		if d := w.sameObs(before, w.observe(dst), strict); d != "" || dst.Len() != lenBefore {
			r.Violate(w.P.Prop+":not-atomic", "refused merge (bad entries %v in a batch of %d) changed the log: %s", badNames, len(cand), d)
		}
		if ct := dst.Clock.GetTime(); ct != clockBefore {
			// observable through the time of the next append
			r.Violate(w.P.Prop+":not-atomic", "refused merge (bad entries %v in a batch of %d) moved the log's clock from %d to %d", badNames, len(cand), clockBefore, ct)
		}
		return
	}
	if err != nil {
		r.Violate(w.P.Prop+":refused-valid", "merge of %d valid entries was refused: %v (tampered but not candidates: %v)", len(cand), err, badNames)
	}
	for _, h := range cand {
		dstSet[h] = true
	}
	// an accepted merge must have added exactly the candidates: nothing that was not verified
	// may become observable, not even as a head
	if got := sortedKeys(hashSet(dst.GetEntries())); joinS(got) != joinS(sortedKeys(dstSet)) {
		r.Violate(w.P.Prop+":merge-result", "accepted merge left %d entries, expected %d", len(got), len(dstSet))
	}
	if hs, mh := sortedCopy(hashSeq(dst.Heads())), w.M.Heads(dstSet); joinS(hs) != joinS(mh) {
		r.Violate(w.P.Prop+":unverified-head", "accepted merge left heads %v, the verified entries' heads are %v (tampered non-candidates: %v)", w.M.Names(hs), w.M.Names(mh), badNames)
	}
}

func sortedKeysE(m map[string]iface.IPFSLogEntry) []string {
	out := make([]string, 0, len(m))
	for k := range m {
		out = append(out, k)
	}
	sort.Strings(out)
	return out
}

// doPolicy: merges and appends under access-control policies, on scratch clones.
func (w *World) doPolicy() {
	s, rcv := w.pickUp("pol-sender"), w.pickUp("pol-receiver")
	r := w.R
	kind := 1 + r.Choose("pol-kind", 3)
	batch := []int{1, 2, 6, 20}[r.Choose("pol-batch", 4)]
	wpick := r.Choose("pol-writer", len(Writers()))
	nth := 1 + r.Choose("pol-nth", 25)
	if s == nil || rcv == nil || s == rcv {
		return
	}
	src := w.freshBatch(s, batch)
	srcEntries := map[string]iface.IPFSLogEntry{}
	for _, e := range liveSlice(src.GetEntries()) {
		srcEntries[e.GetHash().String()] = e
	}
	cand := w.modelDifference(srcEntries, hashSeq(src.Heads()), rcv.Set)
	p := &policy{kind: kind, writerID: Writers()[wpick].ID.ID, nth: int64(nth)}
	if kind == 2 && len(cand) > 0 {
		// a payload some candidate really carries (or not)
		pl := srcEntries[cand[r.Choose("pol-victim", len(cand))]].GetPayload()
		p.prefix = append([]byte(nil), pl...)
		if r.Choose("pol-miss", 4) == 0 {
			p.prefix = []byte("no-such-payload")
		}
	}
	o := w.logOpts()
	o.Entries = rcv.Log.GetEntries()
	o.Heads = rcv.Log.Heads().Slice()
	o.AccessController = p
	dst := w.newLog(rcv.W, o)
	before := w.observe(dst)
	expectDeny := false
	switch kind {
	case 1, 2:
		for _, h := range cand {
			if p.deniesModel(srcEntries[h]) {
				expectDeny = true
			}
		}
	case 3:
		expectDeny = nth <= len(cand)
	}
	size := -1
	if sz := r.Choose("pol-size", 2*(len(cand)+2)); expectDeny && sz <= len(cand)+1 && kind != 3 {
		size = sz // (a counting policy denies the n-th entry it is asked about: every candidate must be asked about)
	}
	_, err := dst.Join(src, size)
	r.Logf("policy-merge n%d->clone(n%d) kind=%d candidates=%d size=%d expectDeny=%v err=%v", s.Idx, rcv.Idx, kind, len(cand), size, expectDeny, err != nil)
	if expectDeny {
		r.Fault("policy-deny")
		if err == nil {
			r.Violate("C06:admitted-denied", "merge admitted %d entries although the access controller denies one of them (policy %d)", len(cand), kind)
		}
		_, strict := w.M.Linear(rcv.Set, w.ByHash)
		if d := w.sameObs(before, w.observe(dst), strict); d != "" {
			r.Violate("C06:not-atomic", "denied merge changed the log: %s", d)
		}
	} else {
		if err != nil {
			r.Violate("C06:refused-valid", "merge of %d permitted entries was refused: %v", len(cand), err)
		}
		u := copySet(rcv.Set)
		for _, h := range cand {
			u[h] = true
		}
		if got := hashSet(dst.GetEntries()); !setEq(got, u) {
			r.Violate("C06:merge-result", "permitted merge holds %d entries, expected %d", len(got), len(u))
		}
	}
}

// doDenied: an append the controller denies leaves entries and heads unchanged.
func (w *World) doDenied() {
	n := w.pickUp("deny-node")
	r := w.R
	match := r.Choose("deny-match", 3) != 0
	kind := 1 + r.Choose("deny-kind", 2)
	if n == nil {
		return
	}
	pl := w.payload()
	p := &policy{kind: kind, writerID: n.W.ID.ID, prefix: pl}
	if !match {
		p.writerID = "nobody"
		p.prefix = []byte("no-such-payload")
	}
	o := w.logOpts()
	o.Entries = n.Log.GetEntries()
	o.Heads = n.Log.Heads().Slice()
	o.AccessController = p
	c := w.newLog(n.W, o)
	before := w.observe(c)
	e, err := c.Append(w.ctx, pl, nil)
	r.Logf("denied-append clone(n%d) kind=%d match=%v err=%v", n.Idx, kind, match, err != nil)
	if match {
		r.Fault("policy-deny")
		if err == nil {
			r.Violate("C06:append-admitted-denied", "append succeeded although the access controller denies it")
		}
		_, strict := w.M.Linear(n.Set, w.ByHash)
		if d := w.sameObs(before, w.observe(c), strict); d != "" {
			r.Violate("C06:denied-append-changed-log", "denied append changed the log: %s", d)
		}
		return
	}
	if err != nil {
		r.Violate("C06:append-refused", "append refused although the controller permits it: %v", err)
	}
	w.register(e)
}

// doTamper (C07): single-field corruption of an honest entry must make Verify fail.
func (w *World) doTamper() {
	n := w.pickUp("tamper-node")
	r := w.R
	pick := r.Choose("tamper-entry", 1<<16)
	pick2 := r.Choose("tamper-other", 1<<16)
	kind := r.Choose("tamper-kind", nTamper)
	wk := r.Choose("tamper-key", len(Writers()))
	viaStore := r.Choose("tamper-at-rest", 3) == 0
	if n == nil || len(n.Set) == 0 {
		return
	}
	all := sortedKeys(n.Set)
	h := all[pick%len(all)]
	var e iface.IPFSLogEntry
	if w.Codec == "pb" {
		viaStore = false
	}
	if w.Codec == "cbor" && w.LinkKeyBytes == nil && pick2%5 == 0 {
		w.tamperLegacy(n, h, kind, pick2, wk)
		return
	}
	if viaStore {
		// corruption at rest: start from what a reader decodes from the stored block
		var err error
		e, err = entry.FromMultihashWithIO(w.ctx, w.St, w.Cids[h], n.W.ID.Provider, w.IO)
		if err != nil {
			r.Violate("C07:readback", "honest block %s does not decode: %v", w.M.Name(h), err)
		}
	} else {
		e, _ = n.Log.Get(w.Cids[h])
	}
	if err := e.Verify(n.W.ID.Provider, w.IO); err != nil {
		r.Violate("C07:honest-verify", "honest entry %s does not verify (%s): %v", w.M.Name(h), map[bool]string{true: "decoded from its block", false: "in memory"}[viaStore], err)
	}
	oh := all[pick2%len(all)]
	var other iface.IPFSLogEntry
	if oh != h {
		other, _ = n.Log.Get(w.Cids[oh])
	}
	tr := tamper(r, e, kind, other, Writers()[wk].ID.PublicKey)
	if !tr.applied {
		r.Logf("tamper %s kind=%s not applicable", w.M.Name(h), tamperNames[kind])
		return
	}
	r.Fault("tamper-" + tamperNames[kind])
	var err error
	out := Protect(func() { err = tr.e.Verify(n.W.ID.Provider, w.IO) })
	r.Logf("tamper %s kind=%s (%s) at-rest=%v next=%d refs=%d -> verify err=%v", w.M.Name(h), tamperNames[kind], tr.detail, viaStore, len(e.GetNext()), len(e.GetRefs()), err != nil)
	if out.Status != "ok" {
		r.Violate("C07:verify-panic", "Verify panicked on a tampered entry (%s): %s", tamperNames[kind], out.Msg)
	}
	if err == nil {
		if tr.invisible {
			r.Violate("C07:"+tamperNames[kind], "payload change invisible in the signed JSON (invalid UTF-8 bytes are replaced before signing): %s still verifies", tr.detail)
		}
		r.Violate("C07:"+tamperNames[kind], "entry %s with %s still verifies", w.M.Name(h), tr.detail)
	}
	w.mergeTampered(n, h, tr)
}

// mergeTampered: the changed copy is offered, under the honest identifier, to the point where the library
// verifies what it takes over - a merge. The receiver is a fresh log or (the state a length-limited load
// or a bounded merge leaves) a log that holds a successor of the entry but not the entry itself, so that
// its index already names the identifier. An entry whose Verify fails must not end up in the log.
func (w *World) mergeTampered(n *Node, h string, tr tamperResult) {
	r := w.R
	ro := w.logOpts()
	var succ string
	for _, c := range sortedKeys(n.Set) {
		for _, nx := range w.M.Reg[c].Next {
			if nx == h {
				succ = c
			}
		}
	}
	how := r.Choose("tampered-into", 4)
	held := false
	honest, _ := n.Log.Get(w.Cids[h])
	fpHonest := fingerprint(honest)
	if how == 3 {
		// the receiver holds the genuine entry already (a log built from the replica's entries and heads): what it
		// hands out under that identifier afterwards must still be the genuine entry, also as a head
		ro.Entries = n.Log.GetEntries()
		ro.Heads = n.Log.Heads().Slice()
		held = true
		r.Probe("tampered-copy-offered-to-holder-of-the-genuine-entry")
	} else if succ != "" && how != 0 {
		se, _ := n.Log.Get(w.Cids[succ])
		om := entry.NewOrderedMap()
		om.Set(succ, se)
		ro.Entries = om
		ro.Heads = []iface.IPFSLogEntry{se}
		r.Probe("tampered-predecessor-offered-to-partial-log")
	}
	recv := w.newLog(n.W, ro)
	co := w.logOpts()
	om := entry.NewOrderedMap()
	size := -1
	if r.Choose("tampered-carrier", 2) == 0 {
		om.Set(h, tr.e)
		co.Heads = []iface.IPFSLogEntry{tr.e}
	} else {
		// the whole log of the replica with that one entry exchanged, merged with or without a size bound
		for _, e := range liveSlice(n.Log.GetEntries()) {
			if k := e.GetHash().String(); k == h {
				om.Set(k, tr.e)
			} else {
				om.Set(k, e)
			}
		}
		for _, e := range n.Log.Heads().Slice() {
			if e.GetHash().String() == h {
				co.Heads = append(co.Heads, tr.e)
			} else {
				co.Heads = append(co.Heads, e)
			}
		}
		if sz := r.Choose("tampered-size", 2*om.Len()+2); sz <= om.Len() {
			size = sz
		}
		r.Probe("tampered-entry-inside-a-whole-log")
	}
	co.Entries = om
	var carrier *ipfslog.IPFSLog
	var cerr, jerr error
	out := Protect(func() {
		carrier, cerr = ipfslog.NewLog(w.St, n.W.ID, co)
		if cerr == nil {
			_, jerr = recv.Join(carrier, size)
		}
	})
	if out.Status == "violation" {
		r.Violate("C07:merge-panic", "offering a tampered entry (%s) to a merge panicked: %s", tamperNames[tr.kind], out.Msg)
	} else if out.Status != "ok" {
		r.Harness("%s", out.Msg)
	}
	handsOut := func(where string, e iface.IPFSLogEntry) {
		if e != nil && e.GetHash().String() == h && fingerprint(e) != fpHonest {
			r.Violate("C07:merge-"+tamperNames[tr.kind], "after a merge (size bound %d, err=%v) with a log offering a copy of %s with %s, %s hands out that copy in place of the genuine entry: %s instead of %s", size, jerr, w.M.Name(h), tr.detail, where, fingerprint(e), fpHonest)
		}
	}
	if held {
		got, _ := recv.Get(w.Cids[h])
		handsOut("Get", got)
		for _, e := range recv.Heads().Slice() {
			handsOut("Heads", e)
		}
		for _, e := range recv.Values().Slice() {
			handsOut("Values", e)
		}
		for _, e := range liveSlice(recv.GetEntries()) {
			handsOut("GetEntries", e)
		}
		return
	}
	if got, ok := recv.Get(w.Cids[h]); ok && got != nil {
		r.Violate("C07:merge-"+tamperNames[tr.kind], "a merge (size bound %d, err=%v) took over the copy of %s with %s although its signature does not verify (receiver held its successor: %v)", size, jerr, w.M.Name(h), tr.detail, ro.Entries != nil)
	}
}

// versionIO: the default codec with a pre-signature step that stamps the entry with a legacy version -
// the public-API way to a genuinely signed v0/v1 entry (CreateEntryWithIO signs after PreSign, Verify
// runs the same PreSign).
type versionIO struct {
	*cbor.IOCbor
	v uint64
}

func (l *versionIO) PreSign(e iface.IPFSLogEntry) (iface.IPFSLogEntry, error) {
	e = e.Copy()
	e.SetV(l.v)
	return e, nil
}

// tamperLegacy: the single-field corruptions on a genuinely signed entry of a legacy version (scratch
// store, nothing enters the world).
func (w *World) tamperLegacy(n *Node, h string, kind, pick, wk int) {
	r := w.R
	io := &versionIO{defaultIO(), 1} // (version 0 cannot be written through the CBOR codec at all)
	src, _ := n.Log.Get(w.Cids[h])
	tmpl := &entry.Entry{LogID: w.LogID, Payload: src.GetPayload(), Next: append([]cid.Cid{}, src.GetNext()...), Refs: []cid.Cid{},
		Clock: entry.NewLamportClock(n.W.ID.PublicKey, src.GetClock().GetTime())}
	e, err := entry.CreateEntryWithIO(w.ctx, NewStore(), n.W.ID, tmpl, nil, io)
	if err != nil {
		r.Violate("C07:create-entry", "CreateEntryWithIO with a version-%d pre-signature step failed: %v", io.v, err)
	}
	if err := e.Verify(n.W.ID.Provider, io); err != nil {
		r.Violate("C07:honest-verify", "freshly signed version-%d entry does not verify: %v", io.v, err)
	}
	r.Probe("legacy-version-entry")
	tr := tamper(r, e, kind, src, Writers()[wk].ID.PublicKey)
	if !tr.applied || tr.invisible || kind == tVersion || kind == tNextDup || kind == tRefsDup {
		return // (the version-stamping pre-signature step works on a copy, and copies drop repeated links)
	}
	r.Fault("tamper-" + tamperNames[kind])
	var verr error
	out := Protect(func() { verr = tr.e.Verify(n.W.ID.Provider, io) })
	r.Logf("tamper legacy v%d copy of %s kind=%s (%s) -> verify err=%v", io.v, w.M.Name(h), tamperNames[kind], tr.detail, verr != nil)
	if out.Status != "ok" {
		r.Violate("C07:verify-panic", "Verify panicked on a tampered version-%d entry (%s): %s", io.v, tamperNames[kind], out.Msg)
	}
	if verr == nil {
		r.Violate("C07:"+tamperNames[kind], "version-%d entry with %s still verifies", io.v, tr.detail)
	}
}

// ------------------------------------------------------------------ after-append checks (C06, C08, C18)

func (w *World) afterAppend(n *Node, e iface.IPFSLogEntry, me *MEntry) {
	r := w.R
	chk := w.P.Check
	if w.Codec != "pb" && r.Choose("republish", 8) == 0 {
		// the application publishes the entry once more somewhere else (another store; its pre-signature form
		// or the default codec): that is about the copy that is written, the entry in the log stays what it is
		fp := fingerprint(e)
		var opts *iface.CreateEntryOptions
		io := w.IO
		if r.Choose("republish-how", 2) == 0 {
			opts = &iface.CreateEntryOptions{PreSigned: true}
		} else {
			io = defaultIO()
		}
		out := Protect(func() { _, _ = entry.ToMultihashWithIO(w.ctx, e, NewStore(), opts, io) })
		if out.Status == "violation" {
			r.Violate(w.P.Prop+":republish-panic", "publishing an appended entry once more panicked: %s", out.Msg)
		} else if out.Status != "ok" {
			r.Harness("%s", out.Msg)
		}
		if f := fingerprint(e); f != fp {
			r.Violate(w.P.Prop+":mutated", "publishing entry %s once more (another store) changed the entry the log holds: was %s now %s", w.M.Name(me.Hash), fp, f)
		}
		r.Probe("entry-published-once-more")
	}
	if chk["C06"] {
		var err error
		out := Protect(func() { err = e.Verify(n.W.ID.Provider, w.IO) })
		if out.Status != "ok" {
			r.Violate("C06:verify-panic", "Verify of a freshly appended entry panicked under codec %s: %s", w.Codec, out.Msg)
		}
		if err != nil {
			r.Violate("C06:append-verifies", "entry returned by Append does not verify under codec %s (next=%d refs=%d): %v", w.Codec, len(e.GetNext()), len(e.GetRefs()), err)
		}
		// a fresh permissive replica must admit it
		fresh := w.newLog(Writers()[4], w.logOpts())
		o := w.logOpts()
		om := entry.NewOrderedMap()
		om.Set(me.Hash, e)
		o.Entries = om
		o.Heads = []iface.IPFSLogEntry{e}
		carrier := w.newLog(n.W, o)
		if _, err := fresh.Join(carrier, -1); err != nil {
			r.Violate("C06:append-mergeable", "a fresh permissive replica refused an entry produced by Append under codec %s: %v", w.Codec, err)
		}
		if _, ok := fresh.Get(e.GetHash()); !ok {
			r.Violate("C06:append-mergeable", "a fresh permissive replica did not take an entry produced by Append under codec %s", w.Codec)
		}
	}
	if chk["C08"] {
		w.checkReadBack(n, e, me)
	}
	if chk["C18"] && w.LinkKeyBytes != nil {
		w.checkLinkKeyEntry(n, e, me)
	}
}

// appendWithDiskError: the block write of this append fails (disk full / I/O error).
func (w *World) appendWithDiskError(n *Node, pl []byte, pc int) {
	r := w.R
	before := w.observe(n.Log)
	blocks := w.St.NumBlocks()
	pin := r.Bool("pin", 1, 3)
	w.St.FailNextAdd("error")
	e, err := n.Log.Append(w.ctx, pl, &ipfslog.AppendOptions{PointerCount: pc, Pin: pin})
	r.Logf("append n%d with disk error (pin=%v) -> err=%v", n.Idx, pin, err != nil)
	if err == nil {
		r.Violate("C17:acknowledged-lost-write", "Append returned %v although its block write failed", e.GetHash())
	}
	_, strict := w.M.Linear(n.Set, w.ByHash)
	if d := w.sameObs(before, w.observe(n.Log), strict); d != "" {
		r.Violate("C17:failed-append-changed-log", "an append whose block write failed changed the log: %s", d)
	}
	if w.St.NumBlocks() != blocks {
		r.Violate("C17:failed-append-wrote", "an append whose block write failed left %d new blocks", w.St.NumBlocks()-blocks)
	}
	n.ClockAhead = true
}

// doRefused: the replica's own access controller refuses one append; the log must be
// observably unchanged, and whatever the attempt left behind must not disturb later operations.
func (w *World) doRefused() {
	n := w.pickUp("refuse-node")
	if n == nil {
		return
	}
	r := w.R
	if src := w.pickUp("refuse-src"); r.Choose("refuse-what", 2) == 0 && src != nil && src != n {
		// the replica's controller refuses a merge from a live peer that has something new
		fresh := false
		for h := range src.Set {
			if !n.Set[h] {
				fresh = true
			}
		}
		if fresh && !w.blocked(n.Idx, src.Idx) {
			before := w.observe(n.Log)
			clockBefore := n.Log.Clock.GetTime()
			n.Pol.kind, n.Pol.nth = 3, n.Pol.calls.Load()+1
			_, err := n.Log.Join(src.Log, -1)
			n.Pol.kind = 0
			if ct := n.Log.Clock.GetTime(); ct != clockBefore {
				r.Violate(w.P.Prop+":not-atomic", "a refused merge moved the log's clock from %d to %d", clockBefore, ct)
			}
			r.Fault("merge-refused")
			r.Logf("refused-merge n%d<-n%d err=%v", n.Idx, src.Idx, err != nil)
			if err == nil {
				r.Violate(w.P.Prop+":admitted-denied", "merge succeeded although the log's access controller denies one of the new entries")
			}
			_, strict := w.M.Linear(n.Set, w.ByHash)
			if d := w.sameObs(before, w.observe(n.Log), strict); d != "" {
				r.Violate(w.P.Prop+":not-atomic", "a refused merge changed the log: %s", d)
			}
			return
		}
	}
	if what := r.Choose("refuse-foreign", 3); what == 0 && w.Codec != "pb" && (w.P.Check["C05"] || w.P.Check["C06"] || w.P.Check["C08"] || w.P.Check["C18"]) && len(n.Set) > 0 {
		w.foreignMerge(n)
		return
	}
	pl := w.payload()
	// entries are deterministic: a replica in the state another replica of the same writer was in, appending
	// the same payload, produces the very entry that other replica already holds. Refusing it must not
	// disturb that entry (its block, its place in other logs)
	twins := w.twinsFor(n)
	if k := r.Choose("refuse-twin", 2*len(twins)+1); k < len(twins) {
		pl = []byte(twins[k].Payload)
		r.Probe("refused-append-of-an-entry-another-replica-holds")
	}
	before := w.observe(n.Log)
	n.Pol.kind, n.Pol.prefix = 2, pl
	e, err := n.Log.Append(w.ctx, pl, &ipfslog.AppendOptions{PointerCount: w.pointerCount()})
	n.Pol.kind, n.Pol.prefix = 0, nil
	r.Fault("append-refused")
	r.Logf("refused-append n%d err=%v", n.Idx, err != nil)
	if err == nil {
		r.Violate(w.P.Prop+":append-admitted-denied", "Append succeeded (%v) although the log's access controller denies it", e.GetHash())
	}
	_, strict := w.M.Linear(n.Set, w.ByHash)
	if d := w.sameObs(before, w.observe(n.Log), strict); d != "" {
		r.Violate(w.P.Prop+":denied-append-changed-log", "a refused append changed the log: %s", d)
	}
	n.ClockAhead = true
}

// foreignMerge: an application configured with another codec (no link key, or a different one) tries
// to merge a live replica. Whether that merge is accepted is that application's business; the
// replica it read from must not notice: its entries are unchanged and still verify.
func (w *World) foreignMerge(n *Node) {
	r := w.R
	var io iface.IO = linkIO(linkKeyBytes(2))
	kind := "other link key"
	if w.LinkKeyBytes != nil && r.Choose("foreign-io", 2) == 0 {
		io, kind = defaultIO(), "no link key"
	}
	held := n.Log.GetEntries().Slice()
	fps := make([]string, len(held))
	for i, e := range held {
		fps[i] = fingerprint(e)
	}
	before := w.observe(n.Log)
	scratch, err := ipfslog.NewLog(w.St, Writers()[4].ID, &ipfslog.LogOptions{ID: w.LogID, SortFn: w.sortFn(), IO: io})
	if err != nil {
		r.Harness("foreign NewLog: %v", err)
	}
	_, jerr := scratch.Join(n.Log, -1)
	r.Fault("foreign-codec-merge")
	r.Logf("foreign-merge of n%d by a log with %s: err=%v", n.Idx, kind, jerr != nil)
	for i, e := range held {
		if f := fingerprint(e); f != fps[i] {
			r.Violate(w.P.Prop+":mutated", "entry %s held by replica %d changed when a log with %s tried to merge it: was %s now %s", w.M.Name(e.GetHash().String()), n.Idx, kind, fps[i], f)
		}
		if err := e.Verify(n.W.ID.Provider, w.IO); err != nil {
			r.Violate(w.P.Prop+":poisoned", "entry %s held by replica %d no longer verifies after a log with %s tried to merge it: %v", w.M.Name(e.GetHash().String()), n.Idx, kind, err)
		}
	}
	_, strict := w.M.Linear(n.Set, w.ByHash)
	if d := w.sameObs(before, w.observe(n.Log), strict); d != "" {
		r.Violate(w.P.Prop+":mutated", "a merge attempt by another log changed the source replica %d: %s", n.Idx, d)
	}
}

// doRebuild: the application rebuilds its log object from what it holds in memory (entries only,
// or entries and heads), without a clock: the Lamport clock has to be recovered from the entries.
func (w *World) doRebuild() {
	n := w.pickUp("rebuild-node")
	withHeads := w.R.Choose("rebuild-heads", 2) == 0
	if n == nil {
		return
	}
	o := w.nodeOpts(n)
	o.Entries = n.Log.GetEntries()
	if withHeads {
		o.Heads = n.Log.Heads().Slice()
	}
	n.Log = w.newLog(n.W, o)
	n.Gen++
	n.ClockAhead = false
	w.resetMonitor(n)
	if len(w.M.Heads(n.Set)) > 1 {
		w.R.Probe("rebuilt-multi-head-log")
	}
	if w.R.Choose("aliased-append", 4) == 0 {
		w.aliasedAppend(n)
	}
	if w.R.Choose("rebuild-fork", 3) == 0 {
		// a second log object built from the very same options value (same entries map): what happens to it
		// is its own business
		before := w.observe(n.Log)
		fork := w.newLog(n.W, o)
		if e, err := fork.Append(w.ctx, w.payload(), nil); err == nil {
			w.register(e)
		}
		_, strict := w.M.Linear(n.Set, w.ByHash)
		if d := w.sameObs(before, w.observe(n.Log), strict); d != "" {
			w.R.Violate(w.P.Prop+":shared-index", "appending to a second log built from the same options value changed replica %d: %s", n.Idx, d)
		}
		w.R.Probe("fork-from-the-same-options")
	}
	w.R.Logf("rebuild n%d from entries (heads given: %v)", n.Idx, withHeads)
}

// aliasedAppend (scratch objects): a log in which one stored block is two entries, both of them heads -
// a replica loaded from the raw-codec identifier of a head (a block store answers by multihash) and
// merged back. An append on it names every head, leaves itself as the single head and loses nothing.
func (w *World) aliasedAppend(n *Node) {
	r := w.R
	pick := r.Choose("alias-head", 1<<16)
	if w.Codec != "cbor" || w.LinkKeyBytes != nil || len(n.Set) == 0 {
		return
	}
	heads := w.M.Heads(n.Set)
	h := w.Cids[heads[pick%len(heads)]]
	rawCid := cid.NewCidV1(cid.Raw, h.Hash())
	var b *ipfslog.IPFSLog
	var err error
	w.driven(func(ctx context.Context) {
		b, err = ipfslog.NewFromEntryHash(ctx, w.St, n.W.ID, rawCid, w.loadOpts(), &ipfslog.FetchOptions{ProgressChan: w.curProgress})
	})
	if err != nil || b == nil {
		return
	}
	a := w.clone(n, true)
	if _, err := a.Join(b, -1); err != nil || a.Len() == len(n.Set) {
		return
	}
	r.Probe("append-on-heads-that-alias-one-block")
	headsBefore := sortedCopy(hashSeq(a.Heads()))
	viewBefore := hashSeq(a.Values())
	e, err := a.Append(w.ctx, w.payload(), &ipfslog.AppendOptions{PointerCount: w.pointerCount()})
	if err != nil {
		r.Violate(w.P.Prop+":append-error", "append on a log whose heads alias one block failed: %v", err)
	}
	var nx []string
	for _, c := range e.GetNext() {
		nx = append(nx, c.String())
	}
	sort.Strings(nx)
	if joinS(nx) != joinS(headsBefore) {
		r.Violate(w.P.Prop+":append-next", "appended entry names %d predecessors %v, the log had the %d heads %v (two of them one block under two identifiers)", len(nx), nx, len(headsBefore), headsBefore)
	}
	if hs := hashSeq(a.Heads()); len(hs) != 1 || hs[0] != e.GetHash().String() {
		r.Violate(w.P.Prop+":heads", "after an append on aliased heads the heads are %v, want just the new entry", hs)
	}
	held := hashSet(a.GetEntries())
	view := map[string]bool{}
	for _, v := range hashSeq(a.Values()) {
		view[v] = true
	}
	if !setEq(held, view) {
		r.Violate(w.P.Prop+":complete", "after an append on aliased heads the log holds %d entries, its linearised view lists %d", len(held), len(view))
	}
	for _, v := range viewBefore {
		if !view[v] {
			r.Violate(w.P.Prop+":values-subsequence", "an entry of the previous view is missing from the view after an append (heads aliasing one block)")
		}
	}
}

// doPartial (C02 only, on scratch objects): a log obtained by a length-limited load, then merged
// without bound with other replicas. The state is outside the closed-log world of the other
// oracles, so only what C02 states literally is checked, on the entries the log really holds:
// its heads are exactly its entries that none of its entries names as a predecessor.
func (w *World) doPartial() {
	src, other := w.pickUp("partial-src"), w.pickUp("partial-other")
	r := w.R
	limPick := r.Choose("partial-limit", 1<<16)
	conc := r.Choose("load-conc", 6)
	if src == nil || other == nil || len(src.Set) < 2 || w.Codec == "pb" || !(w.P.Check["C02"] || w.P.Check["C01"]) {
		return
	}
	heads := src.Log.Heads().Slice()
	lim := 1 + limPick%(len(src.Set)-1)
	var l *ipfslog.IPFSLog
	var err error
	w.driven(func(ctx context.Context) {
		l, err = ipfslog.NewFromEntry(ctx, w.St, src.W.ID, append([]iface.IPFSLogEntry(nil), heads...), w.loadOpts(), w.fetchOpts(conc, &lim, 0))
	})
	if err != nil {
		r.Violate(w.P.Prop+":load-error", "length-limited load failed with no fault injected: %v", err)
	}
	check := func(when string) {
		es := hashSet(l.GetEntries())
		named := map[string]bool{}
		for h := range es {
			for _, nx := range w.M.Reg[h].Next {
				named[nx] = true
			}
		}
		var want []string
		for h := range es {
			if !named[h] {
				want = append(want, h)
			}
		}
		sort.Strings(want)
		if got := sortedCopy(hashSeq(l.Heads())); joinS(got) != joinS(want) {
			r.Violate(w.P.Prop+":heads-partial", "%s: a partially loaded log (limit %d of %d) has heads %v, its unreferenced entries are %v", when, lim, len(src.Set), w.M.Names(got), w.M.Names(want))
		}
	}
	check("after the length-limited load")
	if _, err := l.Join(w.clone(other, true), -1); err != nil {
		r.Violate(w.P.Prop+":join-error", "merge into a partially loaded log failed: %v", err)
	}
	check("after an unbounded merge")
	if _, err := l.Join(w.clone(src, true), -1); err != nil {
		r.Violate(w.P.Prop+":join-error", "merge into a partially loaded log failed: %v", err)
	}
	check("after merging the full source")
	if w.P.Check["C01"] {
		// if it now holds exactly what the two replicas hold: same entries, hence same heads and values
		u := copySet(src.Set)
		union(u, other.Set)
		if got := hashSet(l.GetEntries()); setEq(got, u) {
			if lin, strict := w.M.Linear(u, w.ByHash); strict && joinS(hashSeq(l.Values())) != joinS(lin) {
				r.Violate("C01:converge", "a log loaded with a length limit and then merged with everything replicas %d and %d hold linearises differently from them", src.Idx, other.Idx)
			}
			r.Probe("partially-loaded-log-caught-up")
		}
		// (a merge walks the other log only down to entries it already holds, so a partially loaded log need
		// not catch up at all: nothing is claimed then)
	}
	r.Probe("partially-loaded-log-merged")
	r.Logf("partial n%d limit=%d then merged with n%d and n%d", src.Idx, lim, other.Idx, src.Idx)
}

// appendWithSealFault: sealing the links fails during this append. The append must fail; nothing with
// the links in clear may reach the store.
func (w *World) appendWithSealFault(n *Node, pl []byte, pc int) {
	r := w.R
	before := w.observe(n.Log)
	writes := len(w.St.Writes)
	sealFault = true
	e, err := n.Log.Append(w.ctx, pl, &ipfslog.AppendOptions{PointerCount: pc})
	sealFault = false
	r.Fault("seal-error")
	r.Logf("append n%d with link sealing error -> err=%v", n.Idx, err != nil)
	for _, wr := range w.St.Writes[writes:] {
		for _, h := range w.M.Order {
			if how := leaks(wr.Bytes, w.Cids[h]); how != "" {
				r.Violate("C18:leak", "a block written while link sealing failed contains the identifier of %s (%s form)", w.M.Name(h), how)
			}
		}
	}
	if err == nil {
		r.Violate(w.P.Prop+":seal-error-ignored", "Append returned %v although sealing its links failed", e.GetHash())
	}
	_, strict := w.M.Linear(n.Set, w.ByHash)
	if d := w.sameObs(before, w.observe(n.Log), strict); d != "" {
		r.Violate(w.P.Prop+":failed-append-changed-log", "an append that failed to seal its links changed the log: %s", d)
	}
	n.ClockAhead = true
}

// appendWithCancelledContext: the caller's context is already done. The append may fail or succeed,
// but if it reports success the entry must be durable and in the log like any other.
func (w *World) appendWithCancelledContext(n *Node, pl []byte, pc int) {
	r := w.R
	ctx, cancel := context.WithCancel(w.ctx)
	cancel()
	before := w.observe(n.Log)
	e, err := n.Log.Append(ctx, pl, &ipfslog.AppendOptions{PointerCount: pc})
	r.Fault("context-already-cancelled")
	r.Logf("append n%d with a cancelled context -> err=%v", n.Idx, err != nil)
	n.ClockAhead = true
	if err != nil {
		_, strict := w.M.Linear(n.Set, w.ByHash)
		if d := w.sameObs(before, w.observe(n.Log), strict); d != "" {
			r.Violate(w.P.Prop+":failed-append-changed-log", "an append that returned an error changed the log: %s", d)
		}
		return
	}
	if !w.St.Has(e.GetHash()) {
		r.Violate(w.P.Prop+":acknowledged-lost-write", "Append with an already cancelled context returned %v but its block is not in the store", e.GetHash())
	}
	me := w.register(e)
	n.Set[me.Hash] = true
	w.recordPointer(n, 1, e.GetHash())
}
