package sim

import (
	"berty.tech/go-ipfs-log/enc"
	"berty.tech/go-ipfs-log/entry"
	"berty.tech/go-ipfs-log/iface"
	"berty.tech/go-ipfs-log/io/cbor"
	"berty.tech/go-ipfs-log/io/pb"
)

type byzPlan struct{}

func linkKeyBytes(k byte) []byte {
	b := make([]byte, 32)
	for i := range b {
		b[i] = k*37 + byte(i)
	}
	return b
}

func linkIO(key []byte) iface.IO {
	sk, err := enc.NewSecretbox(key)
	if err != nil {
		panic(&harnessError{"secretbox: " + err.Error()})
	}
	return defaultIO().ApplyOptions(&cbor.Options{LinkKey: sk})
}

func pbIO() iface.IO {
	io, err := pb.IO(&entry.Entry{}, &entry.LamportClock{})
	if err != nil {
		panic(&harnessError{"pb.IO: " + err.Error()})
	}
	return io
}

func (w *World) dispatchExt(op int) {}

func (w *World) finish() {}
