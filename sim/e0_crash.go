package sim

// C17: crash safety of the block store. Every block write is a crash point: the
// closure invariant is evaluated on the store image after each write (OnAdd),
// every pointer handed back to a caller (entry hash, manifest cid) is reloaded
// from the store image of that instant, at tape-chosen crashes every replica
// restarts from its durable pointer, and at the end a sample of all pointers
// is reloaded from the final image.

import (
	"bytes"
	"context"

	ipfslog "berty.tech/go-ipfs-log"
	"github.com/ipfs/go-cid"
	cbornode "github.com/ipfs/go-ipld-cbor"
	ipld "github.com/ipfs/go-ipld-format"
)

type ptrRec struct {
	kind   int // 0 manifest, 1 entry hash
	c      cid.Cid
	set    map[string]bool
	writes int // size of the write log when the pointer was returned
	node   int
}

func (w *World) installCrashMonitor() {
	seen := map[string][]byte{}
	w.St.OnAdd = func(rec WriteRec, n ipld.Node) {
		w.R.Count("crash-points")
		if old, ok := seen[rec.Cid.KeyString()]; ok && !bytes.Equal(old, rec.Bytes) {
			w.R.Violate("C17:block-rewritten", "block %s was written again with different bytes", rec.Cid)
		}
		seen[rec.Cid.KeyString()] = rec.Bytes
		w.checkBlockClosure(rec)
	}
	w.St.OnRemove = func(c cid.Cid, had bool) {
		// the store must stay closed at every instant: nothing in it may name the removed block, and no
		// pointer ever returned may lead to it
		w.R.Fault("block-removed")
		if !had {
			return
		}
		if me, ok := w.M.Reg[c.String()]; ok {
			w.R.Violate("C17:closure", "the block of entry %s, which replicas hold and returned pointers lead to, was removed from the store", w.M.Name(me.Hash))
		}
		w.St.mu.Lock()
		writes := append([]WriteRec(nil), w.St.Writes...)
		w.St.mu.Unlock()
		for _, rec := range writes {
			if !w.St.Has(rec.Cid) {
				continue
			}
			if nd, err := decodeBlock(rec.Cid, rec.Bytes); err == nil {
				for _, l := range nd.Links() {
					if l.Cid.Equals(c) {
						w.R.Violate("C17:closure", "block %s was removed from the store while block %s links to it", c, rec.Cid)
					}
				}
			}
		}
	}
}

// checkBlockClosure: everything the freshly written block links to is already in the store.
func (w *World) checkBlockClosure(rec WriteRec) {
	var obj map[string]interface{}
	if err := cbornode.DecodeInto(rec.Bytes, &obj); err != nil {
		return // not dag-cbor (legacy codec): covered by the reload checks only
	}
	if hs, ok := obj["heads"]; ok {
		if lst, ok := hs.([]interface{}); ok {
			for _, x := range lst {
				if c, ok := x.(cid.Cid); ok && !w.St.Has(c) {
					w.R.Violate("C17:closure", "manifest %s was written (write #%d) before its head %s", rec.Cid, rec.Seq, w.M.Name(c.String()))
				}
			}
		}
		return
	}
	// an entry block: decode with the writers' codec (and key) to see its links
	nd, err := decodeBlock(rec.Cid, rec.Bytes)
	if err != nil {
		w.R.Violate("C17:block-decode", "block %s written by the library does not decode: %v", rec.Cid, err)
	}
	e, err := w.IO.DecodeRawEntry(nd, rec.Cid, Writers()[0].ID.Provider)
	if err != nil {
		w.R.Violate("C17:block-decode", "entry block %s written by the library does not decode: %v", rec.Cid, err)
	}
	for _, c := range append(append([]cid.Cid(nil), e.GetNext()...), e.GetRefs()...) {
		if !w.St.Has(c) {
			w.R.Violate("C17:closure", "entry block %s was written (write #%d) before the block of its predecessor/reference %s", rec.Cid, rec.Seq, w.M.Name(c.String()))
		}
	}
}

// reloadPointer loads a pointer from the store image holding the first k writes.
func (w *World) reloadPointer(p ptrRec, k int, why string) {
	if w.R.Choose("abandoned-load-before", 6) == 0 {
		// an earlier recovery attempt that its caller gave up on must not leave anything behind that
		// changes what a pointer loads to
		w.abortedLoad()
	}
	view := w.St.View(k)
	var l *ipfslog.IPFSLog
	var err error
	d := &FetchDriver{R: w.R, St: view, Name: w.M.Name, HookBias: w.R.Choose("drv-bias", 3)}
	conc := w.R.Choose("load-conc", 6)
	w.withProgress(d)
	defer func() { w.curProgress = nil }()
	d.Run(func() {
		ctx := context.Background()
		if p.kind == 0 {
			l, err = ipfslog.NewFromMultihash(ctx, view, Writers()[4].ID, p.c, w.loadOpts(), &ipfslog.FetchOptions{Concurrency: conc, ProgressChan: w.curProgress})
		} else {
			l, err = ipfslog.NewFromEntryHash(ctx, view, Writers()[4].ID, p.c, w.loadOpts(), &ipfslog.FetchOptions{Concurrency: conc, ProgressChan: w.curProgress})
		}
	})
	w.R.Add("fetch-steps", int64(d.Steps))
	w.R.Count("pointer-reloads")
	what := [...]string{"manifest", "entry hash"}[p.kind]
	if err != nil {
		w.R.Violate("C17:pointer-reload", "%s returned to replica %d does not load from the store image after %d writes (%s): %v", what, p.node, k, why, err)
	}
	got := hashSet(l.GetEntries())
	if !setEq(got, p.set) {
		w.R.Violate("C17:pointer-reload", "%s returned to replica %d loads %d entries from the store image after %d writes (%s); the log held %d when it was returned (missing %v)",
			what, p.node, len(got), k, why, len(p.set), w.M.Names(diff(sortedKeys(p.set), sortedKeys(got))))
	}
	if hs, mh := sortedCopy(hashSeq(l.Heads())), w.M.Heads(p.set); joinS(hs) != joinS(mh) {
		w.R.Violate("C17:pointer-reload", "%s returned to replica %d reloads with heads %v, the log had %v", what, p.node, w.M.Names(hs), w.M.Names(mh))
	}
}

func (w *World) recordPointer(n *Node, kind int, c cid.Cid) {
	if !w.P.Check["C17"] || w.Codec == "pb" {
		return
	}
	p := ptrRec{kind: kind, c: c, set: copySet(n.Set), writes: len(w.St.Writes), node: n.Idx}
	w.Ptrs = append(w.Ptrs, p)
	w.reloadPointer(p, p.writes, "at return")
}

// doCrashAll: the whole system loses power: every replica restarts from its durable pointer.
func (w *World) doCrashAll() {
	if !w.F.crash {
		return
	}
	w.R.Fault("crash-all")
	w.R.Logf("crash-all after %d writes", len(w.St.Writes))
	w.fullClosureScan()
	for _, n := range w.Nodes {
		n.Up = false
		n.Log = nil
		n.Stalled = 0
	}
	w.Net = nil
	for _, n := range w.Nodes {
		w.restart(n)
	}
}

// fullClosureScan re-checks the invariant over the whole store image.
func (w *World) fullClosureScan() {
	for _, rec := range w.St.Writes {
		w.checkBlockClosure(rec)
	}
}

func (w *World) finishCrash() {
	if !w.P.Check["C17"] {
		return
	}
	w.fullClosureScan()
	k := len(w.Ptrs)
	if k > 6 {
		k = 6
	}
	for i := 0; i < k; i++ {
		p := w.Ptrs[w.R.Choose("final-ptr", len(w.Ptrs))]
		w.reloadPointer(p, len(w.St.Writes), "at the end of the run")
	}
}
