package sim

import (
	"crypto/sha256"
	"encoding/hex"
	"fmt"
	"hash"
	"os"
	"runtime/debug"
	"sort"
	"strings"
	"sync"
)

// Violation is raised (by panic) when an oracle fails.
type Violation struct {
	Oracle string
	Msg    string
}

func (v *Violation) Error() string { return v.Oracle + ": " + v.Msg }

// harnessError is raised when the harness itself is in trouble; never reported
// as a property violation.
type harnessError struct{ msg string }

type Run struct {
	Prop       string
	Seed       uint64
	Tier       string
	T          *Tape
	Events     []string
	h          hash.Hash
	Stats      map[string]int64
	statMu     sync.Mutex
	SimNS      int64 // simulated time covered (nanoseconds)
	nontrivial bool
	KeepLog    bool
}

func NewRun(prop string, seed uint64, t *Tape) *Run {
	return &Run{Prop: prop, Seed: seed, T: t, h: sha256.New(), Stats: map[string]int64{}, KeepLog: true}
}

func (r *Run) Logf(format string, a ...interface{}) {
	s := fmt.Sprintf(format, a...)
	r.h.Write([]byte(s))
	r.h.Write([]byte{'\n'})
	if r.KeepLog {
		r.Events = append(r.Events, s)
	}
}

func (r *Run) Digest() string { return hex.EncodeToString(r.h.Sum(nil)) }

// counters may be bumped from library goroutines (block requests answered by the store)
func (r *Run) Count(key string) { r.Add(key, 1) }
func (r *Run) Add(key string, n int64) {
	r.statMu.Lock()
	r.Stats[key] += n
	r.statMu.Unlock()
}

// Fault counts an injected fault that actually fired and marks the run non-trivial.
func (r *Run) Fault(kind string) {
	r.Add("fault:"+kind, 1)
	r.statMu.Lock()
	r.nontrivial = true
	r.statMu.Unlock()
}

// Probe counts a "rare condition reached" marker.
func (r *Run) Probe(name string) { r.Add("probe:"+name, 1) }

func (r *Run) Nontrivial() {
	r.statMu.Lock()
	r.nontrivial = true
	r.statMu.Unlock()
}
func (r *Run) IsNontrivial() bool {
	r.statMu.Lock()
	defer r.statMu.Unlock()
	return r.nontrivial
}

// Tier is "quick" or "thorough" (set by the worker).
var Tier = "quick"

func (r *Run) Choose(label string, n int) int {
	v := r.T.Choose(n)
	return v
}

// Bool is true with probability num/den.
func (r *Run) Bool(label string, num, den int) bool {
	return r.T.Choose(den) < num
}

func (r *Run) Violate(oracle, format string, a ...interface{}) {
	panic(&Violation{Oracle: oracle, Msg: fmt.Sprintf(format, a...)})
}

func (r *Run) Harness(format string, a ...interface{}) {
	panic(&harnessError{fmt.Sprintf(format, a...)})
}

type Outcome struct {
	Status string `json:"status"` // ok | violation | harness
	Oracle string `json:"oracle,omitempty"`
	Msg    string `json:"msg,omitempty"`
}

// Protect runs f and converts panics into an Outcome. Library panics on this
// goroutine become violations with oracle "panic".
func Protect(f func()) (out Outcome) {
	defer func() {
		if x := recover(); x != nil {
			switch v := x.(type) {
			case *Violation:
				out = Outcome{Status: "violation", Oracle: v.Oracle, Msg: v.Msg}
			case *harnessError:
				out = Outcome{Status: "harness", Msg: v.msg}
			default:
				site, lib := panicSite(string(debug.Stack()))
				if lib {
					out = Outcome{Status: "violation", Oracle: "panic", Msg: fmt.Sprintf("%v | %s", x, site)}
					if os.Getenv("VERIF_DEBUG") != "" {
						fmt.Fprintf(os.Stderr, "%s\n", debug.Stack())
					}
				} else {
					out = Outcome{Status: "harness", Msg: fmt.Sprintf("%v | %s\n%s", x, site, debug.Stack())}
				}
			}
		}
	}()
	f()
	return Outcome{Status: "ok"}
}

// panicSite walks the frames below the panic: a go-ipfs-log frame reached before
// any harness frame means the library (or something it called) panicked.
func panicSite(stack string) (string, bool) {
	lines := strings.Split(stack, "\n")
	seenPanic := false
	first := ""
	for i, l := range lines {
		if strings.HasPrefix(l, "panic(") {
			seenPanic = true
			continue
		}
		if !seenPanic || strings.HasPrefix(l, "\t") || l == "" {
			continue
		}
		loc := ""
		if i+1 < len(lines) {
			loc = strings.TrimSpace(lines[i+1])
			if j := strings.Index(loc, " +0x"); j > 0 {
				loc = loc[:j]
			}
		}
		if first == "" && !strings.HasPrefix(l, "runtime.") {
			first = l + " @ " + loc
		}
		if strings.HasPrefix(l, "berty.tech/go-ipfs-log") {
			fn := l
			if k := strings.LastIndex(fn, "("); k > 0 {
				fn = fn[:k] // drop the argument words: they are addresses and differ between processes
			}
			return fn + " @ " + loc, true
		}
		if strings.HasPrefix(l, "verif/sim") || strings.HasPrefix(l, "main.") {
			return "harness panic: " + first, false
		}
	}
	return "unknown site: " + first, false
}

func sortedKeys(m map[string]bool) []string {
	out := make([]string, 0, len(m))
	for k := range m {
		out = append(out, k)
	}
	sort.Strings(out)
	return out
}

func joinS(xs []string) string { return strings.Join(xs, ",") }
