package sim

// WorkerMain is the body of the worker executables (cmd/simworker and the go1.26 virtual-time
// test binary): it executes simulated runs for one property and reports one JSON line per run
// on the file given by -out (stdout belongs to the library, which prints).

import (
	"encoding/json"
	"flag"
	"fmt"
	"os"
	"runtime"
	"time"
)

type replayFile struct {
	Property string   `json:"property"`
	Seed     uint64   `json:"seed"`
	Oracle   string   `json:"oracle"`
	Msg      string   `json:"msg"`
	Tape     []uint32 `json:"tape"`
	Marks    []int    `json:"marks"`
	Digest   string   `json:"digest"`
	Events   []string `json:"events,omitempty"`
	Status   string   `json:"status"`
}

type result struct {
	T          string           `json:"t"`
	Seed       uint64           `json:"seed"`
	Index      uint64           `json:"index"`
	Status     string           `json:"status,omitempty"`
	Oracle     string           `json:"oracle,omitempty"`
	Msg        string           `json:"msg,omitempty"`
	Digest     string           `json:"digest,omitempty"`
	Stats      map[string]int64 `json:"stats,omitempty"`
	SimNS      int64            `json:"sim_ns,omitempty"`
	Nontrivial bool             `json:"nontrivial,omitempty"`
	TapeLen    int              `json:"tape_len,omitempty"`
	Replay     string           `json:"replay,omitempty"`
	Sample     *replayFile      `json:"sample,omitempty"`
}

// WorkerFlags registers the worker flags on the default flag set; call before flag.Parse.
type WorkerFlags struct {
	prop, out, replay, dump, tier *string
	batch, start, count, stride   *uint64
	seconds, watchdog             *float64
	samples, rawtape, maxDumps    *int
}

func RegisterWorkerFlags() *WorkerFlags {
	f := &WorkerFlags{}
	f.prop = flag.String("prop", "", "property id")
	f.batch = flag.Uint64("batch-seed", 1, "batch seed (VERIF_SEED)")
	f.start = flag.Uint64("start", 0, "first run index")
	f.count = flag.Uint64("count", 1, "number of runs")
	f.stride = flag.Uint64("stride", 1, "index stride")
	f.seconds = flag.Float64("seconds", 0, "stop starting new runs after this many seconds (0 = no limit)")
	f.out = flag.String("out", "", "result file (JSON lines)")
	f.replay = flag.String("replay", "", "replay file to execute instead of generating")
	f.dump = flag.String("dump", "", "where to write the replay file of this run (replay mode or first violation)")
	f.tier = flag.String("tier", "quick", "tier")
	f.samples = flag.Int("samples", 0, "attach the full trace of the first N runs")
	f.rawtape = flag.Int("rawtape", 0, "print a replay file holding the first N raw tape values of run -start (no execution)")
	f.maxDumps = flag.Int("max-dumps", 5, "at most this many violation replay files per worker")
	f.watchdog = flag.Float64("watchdog", 45, "per-run wall-clock limit in seconds: on expiry dump all goroutines and exit 3")
	return f
}

// WorkerMain runs after flag.Parse.
func WorkerMain(f *WorkerFlags) {
	prop, batch, start, count, stride, seconds, out, replay, dump, tier, samples, rawtape, maxDumps, watchdog := f.prop, f.batch, f.start, f.count, f.stride, f.seconds, f.out, f.replay, f.dump, f.tier, f.samples, f.rawtape, f.maxDumps, f.watchdog

	// liveness watchdog of the harness (real time is used for nothing else)
	arm := func() *time.Timer {
		return time.AfterFunc(time.Duration(*watchdog*float64(time.Second)), func() {
			buf := make([]byte, 1<<20)
			n := runtime.Stack(buf, true)
			fmt.Fprintf(os.Stderr, "WATCHDOG: run exceeded %.0fs\n%s\n", *watchdog, buf[:n])
			os.Exit(3)
		})
	}

	if *rawtape > 0 {
		seed := RunSeed(*batch, *prop, *start)
		rf := replayFile{Property: *prop, Seed: seed, Tape: RawTape(seed, *rawtape), Status: "unknown"}
		nb, _ := json.Marshal(rf)
		os.WriteFile(*dump, nb, 0644)
		return
	}

	var of *os.File = os.Stderr
	if *out != "" {
		f, err := os.OpenFile(*out, os.O_CREATE|os.O_WRONLY|os.O_APPEND, 0644)
		if err != nil {
			fmt.Fprintln(os.Stderr, err)
			os.Exit(2)
		}
		of = f
	}
	emit := func(r result) {
		b, _ := json.Marshal(r)
		of.Write(append(b, '\n'))
	}
	Tier = *tier

	if *replay != "" {
		b, err := os.ReadFile(*replay)
		if err != nil {
			fmt.Fprintln(os.Stderr, err)
			os.Exit(2)
		}
		var rf replayFile
		if err := json.Unmarshal(b, &rf); err != nil {
			fmt.Fprintln(os.Stderr, err)
			os.Exit(2)
		}
		emit(result{T: "begin", Seed: rf.Seed})
		r := NewRun(rf.Property, rf.Seed, NewReplayTape(rf.Tape))
		wd := arm()
		o := RunProp(rf.Property, r)
		wd.Stop()
		res := result{T: "end", Seed: rf.Seed, Status: o.Status, Oracle: o.Oracle, Msg: o.Msg, Digest: r.Digest(), Stats: r.Stats, TapeLen: len(rf.Tape)}
		if *dump != "" {
			nf := replayFile{Property: rf.Property, Seed: rf.Seed, Oracle: o.Oracle, Msg: o.Msg, Tape: rf.Tape, Marks: r.T.Marks, Digest: r.Digest(), Events: r.Events, Status: o.Status}
			nb, _ := json.MarshalIndent(nf, "", " ")
			os.WriteFile(*dump, nb, 0644)
		}
		emit(res)
		return
	}

	t0 := time.Now()
	dumps := 0
	for i := uint64(0); i < *count; i++ {
		if *seconds > 0 && time.Since(t0).Seconds() > *seconds {
			break
		}
		idx := *start + i**stride
		seed := RunSeed(*batch, *prop, idx)
		emit(result{T: "begin", Seed: seed, Index: idx})
		r := NewRun(*prop, seed, NewGenTape(seed))
		wd := arm()
		o := RunProp(*prop, r)
		wd.Stop()
		res := result{T: "end", Seed: seed, Index: idx, Status: o.Status, Oracle: o.Oracle, Msg: o.Msg, Digest: r.Digest(), Stats: r.Stats,
			SimNS: r.SimNS, Nontrivial: r.IsNontrivial(), TapeLen: len(r.T.Vals)}
		if o.Status != "ok" || int(i) < *samples {
			rf := &replayFile{Property: *prop, Seed: seed, Oracle: o.Oracle, Msg: o.Msg, Tape: r.T.Vals, Marks: r.T.Marks, Digest: r.Digest(), Events: r.Events, Status: o.Status}
			if o.Status != "ok" && *dump != "" && dumps < *maxDumps {
				dumps++
				nb, _ := json.MarshalIndent(rf, "", " ")
				path := fmt.Sprintf("%s-%d.json", *dump, seed)
				os.WriteFile(path, nb, 0644)
				res.Replay = path
			} else {
				res.Sample = rf
			}
		}
		emit(res)
		if Tainted.Load() {
			// goroutines of the library are stuck for good in this process: ask the parent for a fresh one
			os.Exit(75)
		}
	}
}
