package sim

import "fmt"

type PropRunner func(r *Run)

func e0Profile(prop string, checks ...string) *Profile {
	p := &Profile{Prop: prop, Weights: baseWeights(), Check: map[string]bool{}, MinSteps: 10, MaxSteps: 40}
	if Tier == "thorough" {
		p.MaxSteps = 70
	}
	for _, c := range checks {
		p.Check[c] = true
	}
	return p
}

var Props = map[string]PropRunner{
	"C20":  RunE3,
	"C20c": RunC20c,
	"C13":  func(r *Run) { RunE1(r, "C13") },
	"C14":  func(r *Run) { RunE1(r, "C14") },
	// the structural properties C01-C05 quantify over histories; a history may be concurrent on one log
	// instance: the same shared-log scenarios as C13, reported under the property whose statement breaks
	"C01c": func(r *Run) { RunE1(r, "C01") },
	"C02c": func(r *Run) { RunE1(r, "C02") },
	"C03c": func(r *Run) { RunE1(r, "C03") },
	"C04c": func(r *Run) { RunE1(r, "C04") },
	"C05c": func(r *Run) { RunE1(r, "C05") },
	// iteration and size-bounded merges on a log shared between tasks
	"C15c": func(r *Run) { RunE1(r, "C15") },
	"C16c": func(r *Run) { RunE1(r, "C16") },
	// replicas of one writer writing identical blocks to one store at overlapping times
	"C17c": func(r *Run) { RunE1(r, "C17") },
	"C17": func(r *Run) {
		p := e0Profile("C17", "C17")
		p.Weights[opAppend] = 40
		p.Weights[opPublish] = 12
		p.Weights[opCrash] = 5
		p.Weights[opRestart] = 6
		p.Weights[opCrashAll] = 4
		p.Weights[opAlgebra] = 0
		p.Weights[opSpecial] = 0
		p.CodecSwarm = true
		RunE0(r, p)
	},
	"C09": RunC09,
	"C10": RunC10,
	"C11": RunC11,
	"C12": RunC12,
	"C01": func(r *Run) {
		p := e0Profile("C01", "C01")
		p.Weights[opPartial] = 4 // replicas also start from length-limited loads and catch up by merging
		RunE0(r, p)
	},
	"C02": func(r *Run) {
		p := e0Profile("C02", "C02")
		p.Weights[opPartial] = 5
		RunE0(r, p)
	},
	"C03": func(r *Run) { RunE0(r, e0Profile("C03", "C03")) },
	"C04": func(r *Run) {
		p := e0Profile("C04", "C04")
		p.Weights[opAppend] = 45
		p.Weights[opSetID] = 3
		p.Weights[opClockJump] = 4
		RunE0(r, p)
	},
	"C05": func(r *Run) {
		p := e0Profile("C05", "C05")
		p.CodecSwarm = true // immutability is claimed for entries of every codec configuration
		p.Weights[opRefused] = 6
		p.ClockJumps = true // views must stay stable whatever magnitudes the Lamport times reach
		p.Weights[opClockJump] = 4
		RunE0(r, p)
	},
	"C06": func(r *Run) {
		p := e0Profile("C06", "C06")
		p.CodecSwarm = true
		p.Weights[opCrash], p.Weights[opRestart], p.Weights[opPublish] = 5, 7, 12 // replicas also run on log objects rebuilt by every loader
		p.Weights[opByz] = 14
		p.Weights[opPolicy] = 8
		p.Weights[opDenied] = 5
		p.Weights[opAlgebra] = 0
		p.Weights[opSpecial] = 1
		RunE0(r, p)
	},
	"C07": func(r *Run) {
		p := e0Profile("C07", "C07")
		p.CodecSwarm = true
		p.Weights[opTamper] = 40
		p.Weights[opRawEntry] = 10
		p.Weights[opAlgebra] = 0
		p.Weights[opSpecial] = 0
		RunE0(r, p)
	},
	"C08": func(r *Run) {
		if r.Choose("golden?", 6) == 0 {
			RunGolden(r)
		}
		p := e0Profile("C08", "C08")
		p.CodecSwarm = true
		p.Weights[opPublish] = 10
		p.Weights[opRawEntry] = 14
		p.Weights[opReader] = 6 // reader applications with the same, another or no link key (keyed worlds only)
		RunE0(r, p)
	},
	"C15": func(r *Run) {
		p := e0Profile("C15", "C15")
		p.Weights[opIter] = 40
		p.Weights[opAlgebra] = 0
		RunE0(r, p)
	},
	"C16": func(r *Run) {
		p := e0Profile("C16", "C16")
		p.Weights[opBounded] = 30
		p.Weights[opAlgebra] = 0
		RunE0(r, p)
	},
	"C18": func(r *Run) {
		p := e0Profile("C18", "C18")
		p.LinkKey = true
		p.Weights[opReader] = 10
		p.Weights[opRawEntry] = 12
		p.Weights[opAlgebra] = 0
		RunE0(r, p)
	},
}

func RunProp(prop string, r *Run) Outcome {
	f, ok := Props[prop]
	if !ok {
		return Outcome{Status: "harness", Msg: fmt.Sprintf("unknown property %q", prop)}
	}
	return Protect(func() { f(r) })
}
