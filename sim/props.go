package sim

import "fmt"

type PropRunner func(r *Run)

func e0Profile(prop string, checks ...string) *Profile {
	p := &Profile{Prop: prop, Weights: baseWeights(), Check: map[string]bool{}, MinSteps: 10, MaxSteps: 40}
	for _, c := range checks {
		p.Check[c] = true
	}
	return p
}

var Props = map[string]PropRunner{
	"C01": func(r *Run) { RunE0(r, e0Profile("C01", "C01")) },
	"C02": func(r *Run) { RunE0(r, e0Profile("C02", "C02")) },
	"C03": func(r *Run) { RunE0(r, e0Profile("C03", "C03")) },
	"C04": func(r *Run) {
		p := e0Profile("C04", "C04")
		p.Weights[opAppend] = 45
		p.Weights[opSetID] = 3
		p.Weights[opClockJump] = 4
		RunE0(r, p)
	},
	"C05": func(r *Run) { RunE0(r, e0Profile("C05", "C05")) },
}

func RunProp(prop string, r *Run) Outcome {
	f, ok := Props[prop]
	if !ok {
		return Outcome{Status: "harness", Msg: fmt.Sprintf("unknown property %q", prop)}
	}
	return Protect(func() { f(r) })
}
