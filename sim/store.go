package sim

// simstore: the simulated block store ("disk" and "IPFS"). Implements just the
// part of coreiface.CoreAPI the library uses (Dag().Add/Get, Pin().Add). It
// holds bytes only: every Get re-parses the stored bytes with the real node
// decoders, so nothing but bytes ever crosses the seam.

import (
	"bytes"
	"context"
	"errors"
	"fmt"
	"sort"
	"sync"
	"time"

	"github.com/ipfs/boxo/path"
	"github.com/ipfs/go-cid"
	cbornode "github.com/ipfs/go-ipld-cbor"
	ipld "github.com/ipfs/go-ipld-format"
	dag "github.com/ipfs/go-merkledag"
	coreiface "github.com/ipfs/kubo/core/coreiface"
	"github.com/ipfs/kubo/core/coreiface/options"
	mh "github.com/multiformats/go-multihash"
)

type GetFault int

const (
	FaultNone GetFault = iota
	FaultNotFound
	FaultError
	FaultCorrupt // stored bytes replaced by Alt (decoded with the node decoder; failure => Get error)
	FaultStall   // never answered; ends only by context cancellation
)

func (f GetFault) String() string {
	return [...]string{"none", "notfound", "error", "corrupt", "stall"}[f]
}

type WriteRec struct {
	Seq   int
	Cid   cid.Cid
	Bytes []byte
}

// RemoveRec: a block removal that happened when Seq writes had been made.
type RemoveRec struct {
	Seq int
	Cid cid.Cid
}

type getReq struct {
	seq  int
	c    cid.Cid
	goid int64
	gate chan struct{}
	done bool
}

type Store struct {
	coreiface.CoreAPI // nil: any other method panics, on purpose

	mu             sync.Mutex
	faultMu        sync.Mutex
	blocks         map[string][]byte
	Writes         []WriteRec
	Removes        []RemoveRec
	Pins           []string
	Reqs           []string // every Get request, in arrival order (cid strings)
	ReqAfterCancel int

	// fault plan
	GetFaults map[string]GetFault // by cid string
	Alt       map[string][]byte   // replacement bytes for FaultCorrupt
	AddFailAt map[int]string      // nth Add (0-based, counting every attempt) -> "error" | "lost"
	ErrFlavor int                 // what FaultError answers with: 0 plain error, 1 wraps context.DeadlineExceeded, 2 wraps context.Canceled
	addCount  int
	// Visible: if non-nil, only writes with Seq < VisibleUpTo are readable (crash prefix views)
	visibleUpTo int
	limited     bool

	// parked mode (E2)
	Parked  bool
	pending []*getReq
	reqSeq  int

	// virtual-time mode (E2-T, inside a synctest bubble): Get answers after Delay[cid] of (virtual)
	// time; stalled blocks wait for the context only
	VT    bool
	Delay map[string]time.Duration

	OnAdd   func(rec WriteRec, n ipld.Node) // monitor hook, called with the lock released
	OnFault func(kind string)
	// OnRemove: monitor hook, called with the lock released
	OnRemove func(c cid.Cid, had bool)
}

var errInjected = errors.New("simstore: injected I/O error")

func NewStore() *Store {
	return &Store{blocks: map[string][]byte{}, GetFaults: map[string]GetFault{}, Alt: map[string][]byte{}, AddFailAt: map[int]string{}}
}

// View returns a read-only store exposing only the first k writes of s
// (a crash-point image of the disk).
func (s *Store) View(k int) *Store {
	v := NewStore()
	ri := 0
	for _, w := range s.Writes {
		for ; ri < len(s.Removes) && s.Removes[ri].Seq <= w.Seq && s.Removes[ri].Seq <= k; ri++ {
			delete(v.blocks, s.Removes[ri].Cid.KeyString())
		}
		if w.Seq < k {
			v.blocks[w.Cid.KeyString()] = w.Bytes
		}
	}
	for ; ri < len(s.Removes) && s.Removes[ri].Seq <= k; ri++ {
		delete(v.blocks, s.Removes[ri].Cid.KeyString())
	}
	return v
}

// Clone copies contents (not the fault plan).
func (s *Store) Clone() *Store {
	v := NewStore()
	for k, b := range s.blocks {
		v.blocks[k] = b
	}
	return v
}

func (s *Store) Has(c cid.Cid) bool {
	s.mu.Lock()
	defer s.mu.Unlock()
	_, ok := s.blocks[c.KeyString()]
	if !ok && c.Prefix().Codec == cid.Raw {
		// a block store keeps blocks by multihash: the raw-codec cid of a stored block's hash is present
		for k := range s.blocks {
			if kc, err := cid.Cast([]byte(k)); err == nil && bytes.Equal(kc.Hash(), c.Hash()) {
				return true
			}
		}
	}
	return ok
}

func (s *Store) Raw(c cid.Cid) ([]byte, bool) {
	s.mu.Lock()
	defer s.mu.Unlock()
	b, ok := s.blocks[c.KeyString()]
	return b, ok
}

// PutRaw stores attacker-authored or pre-made bytes under a cid without going
// through the library (used for poison blocks and at-rest corruption).
func (s *Store) PutRaw(c cid.Cid, b []byte) {
	s.mu.Lock()
	s.blocks[c.KeyString()] = b
	s.mu.Unlock()
}

func (s *Store) Delete(c cid.Cid) {
	s.mu.Lock()
	delete(s.blocks, c.KeyString())
	s.mu.Unlock()
}

func (s *Store) NumBlocks() int {
	s.mu.Lock()
	defer s.mu.Unlock()
	return len(s.blocks)
}

// FailNextAdd makes the next Add attempt fail ("error") or be silently dropped ("lost").
func (s *Store) FailNextAdd(kind string) {
	s.mu.Lock()
	s.AddFailAt[s.addCount] = kind
	s.mu.Unlock()
}

func (s *Store) Dag() coreiface.APIDagService { return &dagSvc{s} }
func (s *Store) Pin() coreiface.PinAPI        { return &pinSvc{s: s} }

type pinSvc struct {
	coreiface.PinAPI
	s *Store
}

func (p *pinSvc) Add(ctx context.Context, pth path.Path, _ ...options.PinAddOption) error {
	p.s.mu.Lock()
	p.s.Pins = append(p.s.Pins, pth.String())
	p.s.mu.Unlock()
	return nil
}

type dagSvc struct{ s *Store }

func (d *dagSvc) Add(ctx context.Context, n ipld.Node) error {
	s := d.s
	if e1AddHook != nil {
		if handled, err := e1AddHook(n); handled {
			return err
		}
	}
	s.mu.Lock()
	idx := s.addCount
	s.addCount++
	if kind, ok := s.AddFailAt[idx]; ok {
		s.mu.Unlock()
		if s.OnFault != nil {
			s.fault("add-" + kind)
		}
		if kind == "lost" {
			return nil
		}
		return errInjected
	}
	raw := append([]byte(nil), n.RawData()...)
	rec := WriteRec{Seq: len(s.Writes), Cid: n.Cid(), Bytes: raw}
	s.Writes = append(s.Writes, rec)
	s.blocks[n.Cid().KeyString()] = raw
	s.mu.Unlock()
	if s.OnAdd != nil {
		s.OnAdd(rec, n)
	}
	return nil
}

func decodeBlock(c cid.Cid, b []byte) (ipld.Node, error) {
	switch c.Prefix().Codec {
	case cid.DagCBOR:
		return cbornode.Decode(b, mh.SHA2_256, -1)
	case cid.DagProtobuf:
		return dag.DecodeProtobuf(b)
	case cid.Raw:
		return dag.NewRawNodeWPrefix(b, c.Prefix())
	}
	return nil, fmt.Errorf("simstore: unsupported codec %d", c.Prefix().Codec)
}

func (s *Store) answer(c cid.Cid) (ipld.Node, error) {
	s.mu.Lock()
	b, ok := s.blocks[c.KeyString()]
	if !ok && c.Prefix().Codec == cid.Raw {
		// a block store keeps blocks by multihash: the same bytes answer to the raw-codec cid of their hash
		for k, v := range s.blocks {
			if kc, err := cid.Cast([]byte(k)); err == nil && bytes.Equal(kc.Hash(), c.Hash()) {
				b, ok = v, true
				break
			}
		}
	}
	f := s.GetFaults[c.String()]
	alt := s.Alt[c.String()]
	s.mu.Unlock()
	if f != FaultNone && s.OnFault != nil {
		s.fault("get-" + f.String())
	}
	switch f {
	case FaultNotFound:
		return nil, ipld.ErrNotFound{Cid: c}
	case FaultError:
		// what kind of error a store reports is its own business: a plain I/O error, or one that wraps a context
		// error of the store's own (a per-block time budget, a cancelled internal session) - the caller's context
		// is alive all the same
		switch s.ErrFlavor {
		case 1:
			return nil, fmt.Errorf("simstore: block %s: %w", c, context.DeadlineExceeded)
		case 2:
			return nil, fmt.Errorf("simstore: session closed: %w", context.Canceled)
		}
		return nil, errInjected
	case FaultCorrupt:
		b, ok = alt, true
	}
	if !ok {
		return nil, ipld.ErrNotFound{Cid: c}
	}
	return decodeBlock(c, b)
}

func (d *dagSvc) Get(ctx context.Context, c cid.Cid) (ipld.Node, error) {
	s := d.s
	s.mu.Lock()
	s.Reqs = append(s.Reqs, c.String())
	if ctx.Err() != nil {
		s.ReqAfterCancel++
	}
	f := s.GetFaults[c.String()]
	if s.VT {
		d := s.Delay[c.String()]
		s.mu.Unlock()
		if f == FaultStall {
			if s.OnFault != nil {
				s.fault("get-stall")
			}
			<-ctx.Done()
			return nil, ctx.Err()
		}
		if d > 0 {
			if s.OnFault != nil {
				s.fault("get-slow")
			}
			select {
			case <-time.After(d):
			case <-ctx.Done():
				return nil, ctx.Err()
			}
		}
		return s.answer(c)
	}
	if !s.Parked {
		s.mu.Unlock()
		if f == FaultStall {
			if s.OnFault != nil {
				s.fault("get-stall")
			}
			<-ctx.Done()
			return nil, ctx.Err()
		}
		return s.answer(c)
	}
	req := &getReq{seq: s.reqSeq, c: c, goid: goid(), gate: make(chan struct{})}
	s.reqSeq++
	s.pending = append(s.pending, req)
	s.mu.Unlock()
	return s.parkGet(ctx, req)
}

// parkGet is the whitelisted park point of a block request (see fetchdrv.go).
//
//go:noinline
func (s *Store) parkGet(ctx context.Context, req *getReq) (ipld.Node, error) {
	select {
	case <-req.gate:
	case <-ctx.Done():
		s.mu.Lock()
		req.done = true
		s.mu.Unlock()
		return nil, ctx.Err()
	}
	s.mu.Lock()
	stall := s.GetFaults[req.c.String()] == FaultStall
	s.mu.Unlock()
	if stall {
		// released as a stall: wait for cancellation only
		if s.OnFault != nil {
			s.fault("get-stall")
		}
		<-ctx.Done()
		return nil, ctx.Err()
	}
	return s.answer(req.c)
}

// pendingGets returns the parked, unreleased requests sorted by (cid, arrival).
func (s *Store) pendingGets() []*getReq {
	s.mu.Lock()
	defer s.mu.Unlock()
	var out []*getReq
	for _, r := range s.pending {
		if !r.done {
			out = append(out, r)
		}
	}
	sort.SliceStable(out, func(i, j int) bool {
		if a, b := out[i].c.String(), out[j].c.String(); a != b {
			return a < b
		}
		return out[i].seq < out[j].seq
	})
	return out
}

func (s *Store) release(r *getReq) {
	s.mu.Lock()
	r.done = true
	s.mu.Unlock()
	close(r.gate)
}

func (d *dagSvc) AddMany(ctx context.Context, ns []ipld.Node) error {
	for _, n := range ns {
		if err := d.Add(ctx, n); err != nil {
			return err
		}
	}
	return nil
}
func (d *dagSvc) GetMany(ctx context.Context, cs []cid.Cid) <-chan *ipld.NodeOption {
	panic("simstore: GetMany not used by the library")
}

// Remove deletes a block. The library has no reason to call it; a store is a store, though, so it
// works, is recorded (crash-prefix views honour it) and is reported to the monitor.
func (d *dagSvc) Remove(ctx context.Context, c cid.Cid) error {
	s := d.s
	s.mu.Lock()
	_, had := s.blocks[c.KeyString()]
	delete(s.blocks, c.KeyString())
	s.Removes = append(s.Removes, RemoveRec{Seq: len(s.Writes), Cid: c})
	s.mu.Unlock()
	if s.OnRemove != nil {
		s.OnRemove(c, had)
	}
	if !had {
		return ipld.ErrNotFound{Cid: c}
	}
	return nil
}

func (d *dagSvc) RemoveMany(ctx context.Context, cs []cid.Cid) error {
	for _, c := range cs {
		if err := d.Remove(ctx, c); err != nil {
			return err
		}
	}
	return nil
}
func (d *dagSvc) Pinning() ipld.NodeAdder { return d }

// e1AddHook lets the E1 engine intercept Add without any TSan-visible
// synchronisation (set once in init of e1.go).
var e1AddHook func(n ipld.Node) (bool, error)

// fault reports a fired fault to the run; serialised because in virtual-time mode requests run concurrently.
func (s *Store) fault(kind string) {
	s.faultMu.Lock()
	defer s.faultMu.Unlock()
	s.OnFault(kind)
}
