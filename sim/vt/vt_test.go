//go:build go1.25

//go:debug asynctimerchan=0
package vt

// The virtual-time worker: a test binary (testing/synctest needs a *testing.T) built with go1.26.8
// that speaks the same protocol as cmd/simworker. Run: simworker-vt -test.run '^TestVT$' -prop C11T ...

import (
	"testing"

	"verif/sim"
)

var flags = sim.RegisterWorkerFlags()

func TestVT(t *testing.T) {
	sim.VTT = t
	sim.WorkerMain(flags)
}
