package sim

// Reference model: a grow-only set of entries per replica. Entries are opaque
// records taken from what the real Append returned; the model never computes a
// cid or a signature and contains no constant of the implementation.

import (
	"encoding/hex"
	"fmt"
	"sort"

	"berty.tech/go-ipfs-log/iface"
)

type MEntry struct {
	Idx     int
	Hash    string
	Next    []string
	Refs    []string
	ClockID string // hex
	Time    int
	Payload string
	LogID   string
}

type Model struct {
	Reg   map[string]*MEntry
	Order []string
	// TimeHash: the world's configured ordering is the application-defined "clock time, then entry hash"
	// (a strict total order that ignores the clock id); otherwise (time, clock id[, hash])
	TimeHash bool
}

func NewModel() *Model { return &Model{Reg: map[string]*MEntry{}} }

func cidStrings(e []string) []string { return append([]string(nil), e...) }

func (m *Model) Register(e iface.IPFSLogEntry) *MEntry {
	h := e.GetHash().String()
	if x, ok := m.Reg[h]; ok {
		return x
	}
	me := &MEntry{Idx: len(m.Order), Hash: h, ClockID: hex.EncodeToString(e.GetClock().GetID()),
		Time: e.GetClock().GetTime(), Payload: string(e.GetPayload()), LogID: e.GetLogID()}
	for _, c := range e.GetNext() {
		me.Next = append(me.Next, c.String())
	}
	for _, c := range e.GetRefs() {
		me.Refs = append(me.Refs, c.String())
	}
	m.Reg[h] = me
	m.Order = append(m.Order, h)
	return me
}

// Name gives a short, run-deterministic name for a hash.
func (m *Model) Name(h string) string {
	if e, ok := m.Reg[h]; ok {
		return fmt.Sprintf("#%d", e.Idx)
	}
	if len(h) > 8 {
		return "?" + h[len(h)-8:]
	}
	return "?" + h
}

func (m *Model) Names(hs []string) []string {
	out := make([]string, len(hs))
	for i, h := range hs {
		out[i] = m.Name(h)
	}
	return out
}

// Heads: elements of the set that no other element of the set names as a predecessor.
func (m *Model) Heads(set map[string]bool) []string {
	named := map[string]bool{}
	for h := range set {
		for _, n := range m.Reg[h].Next {
			named[n] = true
		}
	}
	var out []string
	for h := range set {
		if !named[h] {
			out = append(out, h)
		}
	}
	sort.Strings(out)
	return out
}

// Past returns the causal past of h (closure over next; h itself excluded unless
// reachable, which cannot happen in a DAG).
func (m *Model) Past(h string) map[string]bool {
	acc := map[string]bool{}
	stack := []string{h}
	for len(stack) > 0 {
		x := stack[len(stack)-1]
		stack = stack[:len(stack)-1]
		e, ok := m.Reg[x]
		if !ok {
			continue
		}
		for _, n := range e.Next {
			if !acc[n] {
				acc[n] = true
				stack = append(stack, n)
			}
		}
	}
	return acc
}

// PastIn: causal past of the given starts (inclusive) restricted to walking
// through entries that are in the set.
func (m *Model) PastIn(set map[string]bool, starts []string) map[string]bool {
	acc := map[string]bool{}
	var stack []string
	for _, s := range starts {
		if set[s] && !acc[s] {
			acc[s] = true
			stack = append(stack, s)
		}
	}
	for len(stack) > 0 {
		x := stack[len(stack)-1]
		stack = stack[:len(stack)-1]
		for _, n := range m.Reg[x].Next {
			if set[n] && !acc[n] {
				acc[n] = true
				stack = append(stack, n)
			}
		}
	}
	return acc
}

func (m *Model) less(a, b *MEntry, byHash bool) bool {
	if a.Time != b.Time {
		return a.Time < b.Time
	}
	if m.TimeHash {
		return a.Hash < b.Hash
	}
	if a.ClockID != b.ClockID {
		return a.ClockID < b.ClockID
	}
	if byHash {
		return a.Hash < b.Hash
	}
	return false
}

// Linear returns the set sorted ascending by (time, clock id[, hash]) and whether
// that ordering is strict on the set (no two distinct entries compare equal).
func (m *Model) Linear(set map[string]bool, byHash bool) ([]string, bool) {
	xs := make([]*MEntry, 0, len(set))
	for h := range set {
		xs = append(xs, m.Reg[h])
	}
	// sort with hash as a last resort so the model output itself is deterministic
	sort.Slice(xs, func(i, j int) bool {
		a, b := xs[i], xs[j]
		if a.Time != b.Time {
			return a.Time < b.Time
		}
		if a.ClockID != b.ClockID && !m.TimeHash {
			return a.ClockID < b.ClockID
		}
		return a.Hash < b.Hash
	})
	strict := true
	if !byHash && !m.TimeHash {
		for i := 1; i < len(xs); i++ {
			if xs[i].Time == xs[i-1].Time && xs[i].ClockID == xs[i-1].ClockID {
				strict = false
			}
		}
	}
	out := make([]string, len(xs))
	for i, x := range xs {
		out[i] = x.Hash
	}
	return out, strict
}

func (m *Model) MaxTime(set map[string]bool) int {
	mx := 0
	for h := range set {
		if t := m.Reg[h].Time; t > mx {
			mx = t
		}
	}
	return mx
}

func copySet(s map[string]bool) map[string]bool {
	c := make(map[string]bool, len(s))
	for k := range s {
		c[k] = true
	}
	return c
}

func setEq(a, b map[string]bool) bool {
	if len(a) != len(b) {
		return false
	}
	for k := range a {
		if !b[k] {
			return false
		}
	}
	return true
}

func union(dst, src map[string]bool) {
	for k := range src {
		dst[k] = true
	}
}
