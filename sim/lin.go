package sim

// Linearizability of the recorded history of the shared log (C13), checked with
// porcupine against a sequential model whose state is a set of entry ids. Join is
// nondeterministic: it adds one of the states its source had during the call.

import (
	"sort"
	"strings"
	"time"

	"github.com/anishathalye/porcupine"
)

type linInput struct {
	o     *opRec
	cands []map[string]bool // join only
}

func splitSet(s string) map[string]bool {
	out := map[string]bool{}
	if s == "" {
		return out
	}
	for _, h := range strings.Split(s, ",") {
		out[h] = true
	}
	return out
}

func (w *e1World) porcupineCheck(all []*opRec, seqsI interface{}, cfg *e1Config) {
	r := w.r
	seqs := seqsI.([][]st)
	window := func(i, from, to int) []map[string]bool {
		var out []map[string]bool
		sq := seqs[i]
		for k := range sq {
			ends := 1 << 60
			if k+1 < len(sq) {
				ends = sq[k+1].stamp
			}
			if sq[k].stamp <= to && ends > from {
				out = append(out, sq[k].set)
			}
		}
		return out
	}
	nm := porcupine.NondeterministicModel{
		Init: func() []interface{} { return []interface{}{setKey(w.init[0])} },
		Step: func(state, input, output interface{}) []interface{} {
			cur := splitSet(state.(string))
			in := input.(*linInput)
			o := in.o
			same := []interface{}{state}
			switch o.d.kind {
			case kAppend:
				if o.err != nil {
					return same
				}
				if joinS(sortedCopy(o.next)) != joinS(w.headsOf(cur)) {
					return nil
				}
				for h := range cur {
					if w.reg[h] != nil && w.reg[h].Time >= o.time {
						return nil
					}
				}
				cur[o.hash] = true
				return []interface{}{setKey(cur)}
			case kJoin:
				if o.err != nil {
					return same
				}
				var out []interface{}
				seen := map[string]bool{}
				for _, c := range in.cands {
					u := copySet(cur)
					union(u, c)
					k := setKey(u)
					if !seen[k] {
						seen[k] = true
						out = append(out, k)
					}
				}
				return out
			case kValues, kIterator, kSnapshot:
				if o.d.kind == kIterator && o.d.iterUp != 0 {
					return same // a bounded iteration is judged against the recorded states (checkBoundedIterator)
				}
				ss := map[string]bool{}
				for _, h := range o.seq {
					ss[h] = true
				}
				if len(ss) == len(o.seq) && setEq(ss, cur) {
					return same
				}
				return nil
			case kHeads, kRawHeads, kJSONLog:
				if joinS(sortedCopy(o.set)) == joinS(w.headsOf(cur)) {
					return same
				}
				return nil
			case kEntries:
				ss := map[string]bool{}
				for _, h := range o.set {
					ss[h] = true
				}
				if setEq(ss, cur) {
					return same
				}
				return nil
			case kLen:
				if o.n == len(cur) {
					return same
				}
				return nil
			case kGet, kHas:
				if cur[o.d.hash.String()] == o.flag {
					return same
				}
				return nil
			}
			return same
		},
		Equal: func(a, b interface{}) bool { return a.(string) == b.(string) },
	}
	var ops []porcupine.Operation
	for _, o := range all {
		if o.d.target != 0 {
			continue
		}
		in := &linInput{o: o}
		if o.d.kind == kJoin {
			in.cands = window(o.d.src, o.inv, o.ret)
		}
		ops = append(ops, porcupine.Operation{ClientId: o.task, Input: in, Call: int64(o.inv), Output: in, Return: int64(o.ret)})
	}
	sort.Slice(ops, func(i, j int) bool { return ops[i].Call < ops[j].Call })
	if len(ops) == 0 {
		return
	}
	res := porcupine.CheckOperationsTimeout(nm.ToModel(), ops, 5*time.Second)
	switch res {
	case porcupine.Illegal:
		var hs []string
		for _, op := range ops {
			o := op.Input.(*linInput).o
			hs = append(hs, kindNames[o.d.kind])
		}
		r.Violate(cfg.prop+":linearizable", "the history of %d operations on the shared log (%s) has no linearisation against the sequential set model", len(ops), strings.Join(hs, " "))
	case porcupine.Unknown:
		r.Count("porcupine-inconclusive")
	default:
		r.Count("porcupine-ok")
	}
}
