package sim

import "github.com/anishathalye/porcupine"

var _ = porcupine.Ok
