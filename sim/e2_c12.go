package sim

// C12: untrusted blocks. Byte-level and structure-level corruption of stored
// entry blocks and manifests, and attacker-authored ("poison") blocks linked from
// a crafted entry. Decoding is exercised in-process (with recover, for a precise
// message) and inside stored histories through all four loaders under the fetch
// driver, where a panic on a fetch goroutine kills the worker process and is
// reported by the parent.

import (
	"bytes"
	"encoding/base64"
	"encoding/json"
	"fmt"
	"sort"
	"strings"

	ipfslog "berty.tech/go-ipfs-log"
	"berty.tech/go-ipfs-log/enc"
	"berty.tech/go-ipfs-log/entry"
	"berty.tech/go-ipfs-log/entry/sorting"
	"berty.tech/go-ipfs-log/iface"
	"github.com/ipfs/go-cid"
	cbornode "github.com/ipfs/go-ipld-cbor"
	dag "github.com/ipfs/go-merkledag"
	mh "github.com/multiformats/go-multihash"
)

var entryFieldPaths = []string{"v", "id", "key", "sig", "hash", "next", "refs", "clock", "payload", "identity",
	"clock.id", "clock.time", "identity.id", "identity.publicKey", "identity.signatures", "identity.type",
	"identity.signatures.id", "identity.signatures.publicKey", "next.0", "refs.0", "enc_links", "enc_links_nonce"}

var manifestFieldPaths = []string{"id", "heads", "heads.0"}

var mutKinds = [...]string{"absent", "null", "wrong-type", "extra", "wrong-type-2", "empty", "str-double", "str-half", "str-b64-48", "str-odd", "str-2chars", "str-4chars", "str-upper"}

func wrongType(v interface{}, alt int) interface{} {
	switch v.(type) {
	case string:
		if alt == 0 {
			return 7
		}
		return []interface{}{"x"}
	case int, int64, uint64, float64:
		if alt == 0 {
			return "seven"
		}
		return map[string]interface{}{"a": 1}
	case []interface{}:
		if alt == 0 {
			return "list"
		}
		return map[string]interface{}{"0": "x"}
	case map[string]interface{}:
		if alt == 0 {
			return "map"
		}
		return []interface{}{1, 2}
	case cid.Cid:
		if alt == 0 {
			return "bafynotalink"
		}
		return 12
	case nil:
		return "was-null"
	}
	if alt == 0 {
		return "x"
	}
	return 1
}

// otherString: a different, still plausible string (longer, shorter, other encodings' lengths).
func otherString(s string, kind string) string {
	switch kind {
	case "str-double":
		return s + s
	case "str-half":
		return s[:len(s)/2]
	case "str-b64-48":
		return base64.StdEncoding.EncodeToString(bytes.Repeat([]byte{0xab}, 48))
	case "str-2chars": // (a hex field cut down to its first byte, e.g. a DER signature after its SEQUENCE tag)
		if len(s) >= 2 {
			return s[:2]
		}
		return s + "f"
	case "str-4chars":
		if len(s) >= 4 {
			return s[:4]
		}
		return s + "f"
	case "str-upper": // (hex in the other case is the same bytes)
		if u := strings.ToUpper(s); u != s {
			return u
		}
		return s + "f"
	default:
		return s + "f"
	}
}

func emptyOf(v interface{}) interface{} {
	switch v.(type) {
	case string:
		return ""
	case []interface{}:
		return []interface{}{}
	case map[string]interface{}:
		return map[string]interface{}{}
	case int, int64, uint64:
		return -1
	}
	return ""
}

// mutateObj applies kind at path inside a decoded CBOR object; ok=false if the path does not exist.
func mutateObj(obj map[string]interface{}, path string, kind int) bool {
	parts := splitPath(path)
	var cur interface{} = obj
	for i, p := range parts {
		last := i == len(parts)-1
		switch c := cur.(type) {
		case map[string]interface{}:
			v, ok := c[p]
			if !ok && !(last && mutKinds[kind] == "extra") {
				return false
			}
			if last {
				switch mutKinds[kind] {
				case "absent":
					delete(c, p)
				case "null":
					c[p] = nil
				case "wrong-type":
					c[p] = wrongType(v, 0)
				case "wrong-type-2":
					c[p] = wrongType(v, 1)
				case "extra":
					c["zz_extra_"+p] = "unexpected"
				case "empty":
					c[p] = emptyOf(v)
				default:
					sv, ok := v.(string)
					if !ok {
						return false
					}
					c[p] = otherString(sv, mutKinds[kind])
				}
				return true
			}
			cur = v
		case []interface{}:
			idx := 0
			if len(c) == 0 {
				return false
			}
			if last {
				switch mutKinds[kind] {
				case "absent":
					return false
				case "null":
					c[idx] = nil
				case "wrong-type":
					c[idx] = wrongType(c[idx], 0)
				case "wrong-type-2":
					c[idx] = wrongType(c[idx], 1)
				case "extra":
					return false
				case "empty":
					c[idx] = ""
				default:
					return false
				}
				return true
			}
			cur = c[idx]
		default:
			return false
		}
	}
	return false
}

func splitPath(p string) []string {
	var out []string
	cur := ""
	for _, ch := range p {
		if ch == '.' {
			out = append(out, cur)
			cur = ""
		} else {
			cur += string(ch)
		}
	}
	return append(out, cur)
}

func encodeObj(obj interface{}) ([]byte, error) {
	n, err := cbornode.WrapObject(obj, mh.SHA2_256, -1)
	if err != nil {
		return nil, err
	}
	return n.RawData(), nil
}

// corruptBlock produces replacement bytes for a stored block. desc explains what was done.
// poisonInner: CBOR a peer holding the link key could put inside the encrypted links field.
var poisonInner = [][]byte{
	{0xa1, 0x64, 'n', 'e', 'x', 't', 0x81, 0xd8, 0x2a, 0x40},                   // next: [42(h'')]
	{0xa1, 0x64, 'r', 'e', 'f', 's', 0x81, 0xd8, 0x2a, 0x40},                   // refs: [42(h'')]
	{0xa1, 0x64, 'n', 'e', 'x', 't', 0x81, 0xd8, 0x2a, 0x41, 0x00},             // only the multibase prefix
	{0xa1, 0x64, 'n', 'e', 'x', 't', 0x81, 0xd8, 0x2a, 0x43, 0x01, 0x71, 0x12}, // wrong prefix, truncated cid
	{0xa1, 0x64, 'n', 'e', 'x', 't', 0x81, 0xd8, 0x2a, 0xf6},                   // 42(null)
	{0xa1, 0x64, 'n', 'e', 'x', 't', 0xf6},                                     // next: null
	{0xa1, 0x64, 'n', 'e', 'x', 't', 0x05},                                     // next: 5
	{0xa1, 0x64, 'n', 'e', 'x', 't', 0x81, 0x63, 'a', 'b', 'c'},                // next: ["abc"]
	{0xa0}, {0x80}, {0xf6}, {0x01}, {0xff}, {},
	{0xa1, 0x64, 'n', 'e', 'x', 't', 0x9f}, // unterminated indefinite array
}

func corruptBlock(r *Run, raw []byte, manifest bool, linkKey []byte) ([]byte, string) {
	how := r.Choose("corrupt-class", 10)
	if linkKey != nil && !manifest && r.Choose("poison-inner", 4) == 0 {
		// a hostile or buggy peer that shares the link key: the encrypted links open fine and hold odd CBOR
		var obj map[string]interface{}
		if err := cbornode.DecodeInto(raw, &obj); err != nil {
			return nil, ""
		}
		sk, err := enc.NewSecretbox(append([]byte(nil), linkKey...))
		if err != nil {
			return nil, ""
		}
		nonce := make([]byte, 24)
		for i := range nonce {
			nonce[i] = byte(r.Choose("nonce", 256))
		}
		k := r.Choose("poison-inner-kind", len(poisonInner))
		sealed, err := sk.SealWithNonce(poisonInner[k], nonce)
		if err != nil {
			return nil, ""
		}
		obj["enc_links"] = base64.StdEncoding.EncodeToString(sealed)
		obj["enc_links_nonce"] = base64.StdEncoding.EncodeToString(nonce)
		b, err := encodeObj(obj)
		if err != nil {
			return nil, ""
		}
		return b, fmt.Sprintf("poison-inner-links#%d", k)
	}
	switch {
	case how < 6: // structure-level
		var obj map[string]interface{}
		if err := cbornode.DecodeInto(raw, &obj); err != nil {
			return nil, ""
		}
		paths := entryFieldPaths
		if manifest {
			paths = manifestFieldPaths
		}
		path := paths[r.Choose("corrupt-path", len(paths))]
		kind := r.Choose("corrupt-kind", len(mutKinds))
		if !mutateObj(obj, path, kind) {
			return nil, ""
		}
		b, err := encodeObj(obj)
		if err != nil {
			return nil, ""
		}
		return b, fmt.Sprintf("struct:%s:%s", path, mutKinds[kind])
	case how < 7:
		b := append([]byte(nil), raw...)
		i := r.Choose("flip-pos", len(b))
		b[i] ^= 1 << uint(r.Choose("flip-bit", 8))
		return b, fmt.Sprintf("bitflip@%d", i)
	case how < 8:
		n := r.Choose("trunc", len(raw))
		return append([]byte(nil), raw[:n]...), fmt.Sprintf("truncate@%d", n)
	case how < 9:
		b := make([]byte, len(raw))
		for i := range b {
			b[i] = byte(r.Choose("garbage", 256))
		}
		return b, "garbage"
	default: // a different well-formed object
		objs := []interface{}{
			map[string]interface{}{}, []interface{}{}, 5, "just a string",
			map[string]interface{}{"next": []interface{}{1, "a", nil}, "clock": "c", "v": "two"},
			map[string]interface{}{"heads": "none", "id": []interface{}{}},
			map[string]interface{}{"v": 2, "id": "L", "payload": "p", "next": []interface{}{}, "refs": []interface{}{}, "key": "zz", "sig": "zz", "clock": map[string]interface{}{"id": "zz", "time": 1}},
		}
		k := r.Choose("poison-obj", len(objs))
		b, err := encodeObj(objs[k])
		if err != nil {
			return nil, ""
		}
		return b, fmt.Sprintf("other-object#%d", k)
	}
}

// exerciseEntry calls every accessor, comparator and Verify on a decoded entry.
func exerciseEntry(w *World, e iface.IPFSLogEntry, honest iface.IPFSLogEntry) {
	_ = e.Defined()
	_ = e.GetPayload()
	_ = e.GetLogID()
	_ = e.GetNext()
	_ = e.GetRefs()
	_ = e.GetV()
	_ = e.GetKey()
	_ = e.GetSig()
	_ = e.GetIdentity()
	_ = e.GetHash()
	_ = e.GetAdditionalData()
	_ = e.IsValid()
	c := e.GetClock()
	if c != nil {
		_ = c.Defined()
		_ = c.GetID()
		_ = c.GetTime()
	}
	_ = e.Copy()
	_ = e.Equals(honest)
	_ = honest.Equals(e)
	_ = e.IsParent(honest)
	_ = honest.IsParent(e)
	_, _ = sorting.LastWriteWins(e, honest)
	_, _ = sorting.LastWriteWins(honest, e)
	_, _ = sorting.FirstWriteWins(e, honest)
	_, _ = sorting.SortByEntryHash(e, honest)
	_, _ = sorting.SortByEntryHash(honest, e)
	_, _ = sorting.Compare(e, honest)
	_, _ = sorting.Compare(honest, e)
	_, _ = entry.ToHashable(e)
	// (twice: what an untrusted entry makes the provider remember must not change the second answer)
	v1 := e.Verify(Writers()[0].ID.Provider, w.IO)
	v2 := e.Verify(Writers()[0].ID.Provider, w.IO)
	if (v1 == nil) != (v2 == nil) {
		w.R.Violate("C12:verify-unstable", "verifying the same decoded entry twice gave %v, then %v", v1, v2)
	}
	sl := []iface.IPFSLogEntry{e, honest, e}
	sorting.Sort(sorting.NoZeroes(sorting.LastWriteWins), sl, false)
	_ = entry.FindHeads(entry.NewOrderedMapFromEntries(sl))
	// re-publishing what was read (another store, the default codec): may fail, must not panic
	_, _ = entry.ToMultihashWithIO(w.ctx, e, NewStore(), nil, defaultIO())
	_, _ = entry.ToMultihashWithIO(w.ctx, e, NewStore(), &iface.CreateEntryOptions{PreSigned: true}, w.IO)
}

func RunC12(r *Run) {
	sp := sourceProfile("C12")
	sp.LinkKey = r.Choose("c12-linkkey", 3) == 0 // readers that decrypt links decode two more fields
	w := BuildWorld(r, sp)
	if r.Choose("legacy-scenario", 3) == 0 {
		r.T.Mark()
		w.pbScenario()
	}
	for s := 0; s < 6; s++ {
		r.T.Mark()
		// the tape decides after each scenario whether another follows (0 = stop; an exhausted tape stops)
		if s > 0 && r.Choose("another-scenario", 3) == 0 {
			break
		}
		n := w.pickSource("src")
		if n == nil {
			break
		}
		in := w.prepareInputs(n)
		all := sortedKeys(n.Set)
		heads := w.M.Heads(n.Set)
		w.St.GetFaults = map[string]GetFault{}
		w.St.Alt = map[string][]byte{}
		honest, _ := n.Log.Get(w.Cids[heads[0]])
		target := r.Choose("target", 10) // 0-1 manifest, 2-3 head, 4-5 root-most, else anywhere
		var victim string
		manifest := false
		switch {
		case target < 2:
			manifest = true
			victim = in.manifest.String()
			w.Cids[victim] = in.manifest
		case target < 4:
			victim = heads[r.Choose("victim-head", len(heads))]
		case target < 6:
			lin, _ := w.M.Linear(n.Set, true)
			victim = lin[0]
		default:
			victim = all[r.Choose("victim", len(all))]
		}
		raw, ok := w.St.Raw(w.Cids[victim])
		if !ok {
			r.Harness("victim block missing")
		}
		if !manifest && r.Choose("enumerate-struct-mutations", 3) == 0 {
			w.enumerateStructMutations(victim, raw, honest)
		}
		alt, desc := corruptBlock(r, raw, manifest, w.LinkKeyBytes)
		if alt == nil {
			r.Logf("corruption not applicable")
			continue
		}
		r.Fault("corrupt-" + desc[:minInt(len(desc), 6)])
		w.St.GetFaults[victim] = FaultCorrupt
		w.St.Alt[victim] = alt
		r.Logf("corrupt %s of n%d (%s): %s", map[bool]string{true: "manifest", false: "entry " + w.M.Name(victim)}[manifest], n.Idx, desc, loaderNames[0])

		// (a) decode in-process
		overrideLinks := map[string][]string{}
		bad := map[string]bool{}
		if manifest {
			var jl *iface.JSONLog
			out := Protect(func() {
				node, err := w.IO.Read(w.ctx, w.St, in.manifest)
				if err != nil {
					return
				}
				jl, _ = w.IO.DecodeRawJSONLog(node)
			})
			if out.Status == "violation" {
				r.Violate("C12:manifest-decode-panic", "decoding a corrupted manifest (%s) panicked: %s", desc, out.Msg)
			} else if out.Status != "ok" {
				r.Harness("%s", out.Msg)
			}
			_ = jl
		} else {
			var dec iface.IPFSLogEntry
			var derr error
			out := Protect(func() {
				dec, derr = entry.FromMultihashWithIO(w.ctx, w.St, w.Cids[victim], Writers()[0].ID.Provider, w.IO)
			})
			if out.Status == "violation" {
				r.Violate("C12:decode-panic", "decoding a corrupted entry block (%s) panicked: %s", desc, out.Msg)
			} else if out.Status != "ok" {
				r.Harness("%s", out.Msg)
			}
			if derr != nil || dec == nil {
				bad[victim] = true
			} else {
				r.Probe("corrupt-block-still-decodes")
				out := Protect(func() { exerciseEntry(w, dec, honest) })
				if out.Status == "violation" {
					r.Violate("C12:accessor-panic", "an entry decoded without error from a corrupted block (%s) is not safe to use: %s", desc, out.Msg)
				} else if out.Status != "ok" {
					r.Harness("%s", out.Msg)
				}
				var ls []string
				for _, c := range dec.GetNext() {
					ls = append(ls, c.String())
				}
				for _, c := range dec.GetRefs() {
					ls = append(ls, c.String())
				}
				overrideLinks[victim] = ls
			}
		}

		// (b) load the history through a loader under the driver
		ld := w.pickLoader(in)
		if manifest {
			ld = ldManifest
		}
		sp := loadSpec{loader: ld, conc: w.pickConc(), bias: r.Choose("bias", 3)}
		if manifest {
			// a corrupted manifest over a history of which nothing gets loaded: the heads it names are gone, or
			// the caller asks for no entries at all
			switch r.Choose("manifest-history", 4) {
			case 1:
				for _, h := range heads {
					w.St.GetFaults[h] = FaultNotFound
				}
				desc += ", heads not retrievable"
				r.Probe("corrupt-manifest-over-unloadable-history")
			case 2:
				zero := 0
				sp.length = &zero
				desc += ", length 0"
				r.Probe("corrupt-manifest-over-unloadable-history")
			}
		}
		var l *ipfslog.IPFSLog
		var err error
		out := Protect(func() { l, err, _ = w.load(in, sp, Writers()[4]) })
		if manifest {
			for _, h := range heads {
				delete(w.St.GetFaults, h)
			}
		}
		if out.Status == "violation" {
			r.Violate("C12:load-panic", "%s panicked on a history containing a corrupted block (%s): %s", loaderNames[ld], desc, out.Msg)
		} else if out.Status != "ok" {
			r.Harness("%s", out.Msg)
		}
		r.Logf("  %s conc=%d -> err=%v", loaderNames[ld], sp.conc, err != nil)
		if err != nil || l == nil {
			if !manifest {
				// a corrupted entry must not make the whole load fail: the rest is loaded, the bad block skipped
				r.Violate("C12:load-error", "%s failed entirely because of one corrupted entry block (%s): %v", loaderNames[ld], desc, err)
			}
			continue
		}
		if manifest {
			continue // whatever the corrupted manifest names is what gets loaded
		}
		// expected: closure with the corrupted block unretrievable, or with the links it now decodes to
		start := heads
		want := map[string]bool{}
		stack := append([]string(nil), start...)
		for len(stack) > 0 {
			h := stack[len(stack)-1]
			stack = stack[:len(stack)-1]
			if want[h] || bad[h] {
				continue
			}
			if _, known := w.M.Reg[h]; !known {
				continue
			}
			if _, present := w.St.Raw(w.Cids[h]); !present {
				continue
			}
			want[h] = true
			if ls, ok := overrideLinks[h]; ok {
				stack = append(stack, ls...)
			} else {
				stack = append(stack, w.links(h)...)
			}
		}
		if ld == ldEntries {
			// supplied head entries are kept as given (their history is still found by fetching their blocks)
			for _, h := range heads {
				want[h] = true
			}
		}
		var got map[string]bool
		out = Protect(func() {
			got = hashSet(l.GetEntries())
			_ = l.Values()
			_ = l.Heads()
			_ = l.ToSnapshot()
		})
		if out.Status == "violation" {
			r.Violate("C12:loaded-log-panic", "a log loaded from a history with a corrupted block (%s) panics when read: %s", desc, out.Msg)
		} else if out.Status != "ok" {
			r.Harness("%s", out.Msg)
		}
		if !setEq(got, want) {
			r.Violate("C12:remaining-history", "%s loaded %v from a history with corrupted block %s (%s); the remaining retrievable history is %v",
				loaderNames[ld], w.M.Names(sortedKeys(got)), w.M.Name(victim), desc, w.M.Names(sortedKeys(want)))
		}
	}
	w.St.GetFaults = map[string]GetFault{}
	w.St.Alt = map[string][]byte{}
	r.SimNS = w.Now * 1e6
}

func (w *World) reachableFrom(starts []string, bad map[string]bool, override map[string][]string) []string {
	seen := map[string]bool{}
	stack := append([]string(nil), starts...)
	for len(stack) > 0 {
		h := stack[len(stack)-1]
		stack = stack[:len(stack)-1]
		if seen[h] || bad[h] {
			continue
		}
		if _, known := w.M.Reg[h]; !known {
			continue
		}
		seen[h] = true
		if ls, ok := override[h]; ok {
			stack = append(stack, ls...)
		} else {
			stack = append(stack, w.links(h)...)
		}
	}
	out := sortedKeys(seen)
	sort.Strings(out)
	return out
}

func minInt(a, b int) int {
	if a < b {
		return a
	}
	return b
}

// ---------------------------------------------------------------- legacy (v0, dag-pb) blocks

var v0FieldPaths = []string{"hash", "id", "payload", "next", "next.0", "v", "clock", "clock.id", "clock.time", "key", "sig"}

// pbScenario: a small stored history of legacy v0 blocks (JSON inside a dag-pb node), one of them
// corrupted at the JSON level or the byte level; decoded in-process and loaded with the legacy codec.
func (w *World) pbScenario() {
	r := w.R
	pbio := pbIO()
	st := NewStore()
	st.OnFault = func(k string) { r.Fault(k) }
	key := "0411a0d38181c9374eca3e480ecada96b1a4db9375c5e08c3991557759d22f6f2f902d0dc5364a948035002504d825308b0c257b7cbb35229c2076532531f8f4ef"
	sig := "3044022062f4cfc8b8f3cc01283b25eab3eeb295614bb0faa8bd20f026c1487ae663121102207ce415bd7423b66d695338c17122e937259f77d1e86494d3146436f0959fccc6"
	n := 2 + r.Choose("v0-chain", 4)
	var cids []cid.Cid
	var raws [][]byte
	var objs []map[string]interface{}
	for i := 0; i < n; i++ {
		obj := map[string]interface{}{"hash": nil, "id": "A", "payload": fmt.Sprintf("v0-%d", i), "next": []interface{}{}, "v": 0,
			"clock": map[string]interface{}{"id": key, "time": i}, "key": key, "sig": sig}
		if i > 0 {
			obj["next"] = []interface{}{cids[i-1].String()}
		}
		b, _ := json.Marshal(obj)
		nd := &dag.ProtoNode{}
		nd.SetData(b)
		if err := st.Dag().Add(w.ctx, nd); err != nil {
			r.Harness("pb add: %v", err)
		}
		cids = append(cids, nd.Cid())
		raws = append(raws, nd.RawData())
		objs = append(objs, obj)
	}
	victim := r.Choose("v0-victim", n)
	how := r.Choose("v0-how", 8)
	var alt []byte
	desc := ""
	if how < 6 {
		// JSON-level mutation
		obj := map[string]interface{}{}
		b, _ := json.Marshal(objs[victim])
		json.Unmarshal(b, &obj)
		path := v0FieldPaths[r.Choose("v0-path", len(v0FieldPaths))]
		kind := r.Choose("v0-kind", len(mutKinds))
		if !mutateObj(obj, path, kind) {
			r.Logf("v0 mutation not applicable")
			return
		}
		b, _ = json.Marshal(obj)
		nd := &dag.ProtoNode{}
		nd.SetData(b)
		alt = nd.RawData()
		desc = fmt.Sprintf("v0 json:%s:%s", path, mutKinds[kind])
	} else if how == 6 {
		alt = append([]byte(nil), raws[victim]...)
		i := r.Choose("flip-pos", len(alt))
		alt[i] ^= 1 << uint(r.Choose("flip-bit", 8))
		desc = fmt.Sprintf("v0 bitflip@%d", i)
	} else {
		alt = append([]byte(nil), raws[victim][:r.Choose("trunc", len(raws[victim]))]...)
		desc = "v0 truncate"
	}
	st.GetFaults[cids[victim].String()] = FaultCorrupt
	st.Alt[cids[victim].String()] = alt
	r.Fault("corrupt-v0")
	r.Logf("legacy history of %d v0 blocks, block %d corrupted: %s", n, victim, desc)
	honestIdx := 0
	if victim == 0 {
		honestIdx = 1
	}
	honest, err := entry.FromMultihashWithIO(w.ctx, st, cids[honestIdx], Writers()[0].ID.Provider, pbio)
	if err != nil {
		r.Violate("C12:v0-decode", "an untouched legacy v0 block does not decode: %v", err)
	}
	var dec iface.IPFSLogEntry
	var derr error
	out := Protect(func() { dec, derr = entry.FromMultihashWithIO(w.ctx, st, cids[victim], Writers()[0].ID.Provider, pbio) })
	if out.Status == "violation" {
		r.Violate("C12:decode-panic", "decoding a corrupted legacy block (%s) panicked: %s", desc, out.Msg)
	} else if out.Status != "ok" {
		r.Harness("%s", out.Msg)
	}
	if derr == nil && dec != nil {
		r.Probe("corrupt-block-still-decodes")
		saved := w.IO
		w.IO = pbio
		out := Protect(func() { exerciseEntry(w, dec, honest) })
		w.IO = saved
		if out.Status == "violation" {
			r.Violate("C12:accessor-panic", "an entry decoded without error from a corrupted legacy block (%s) is not safe to use: %s", desc, out.Msg)
		} else if out.Status != "ok" {
			r.Harness("%s", out.Msg)
		}
	}
	// load the history from its head with the legacy codec, under the driver: a panic on a fetch
	// goroutine kills this process and is reported by the parent
	var l *ipfslog.IPFSLog
	d := &FetchDriver{R: r, St: st, HookBias: r.Choose("bias", 3)}
	conc := w.pickConc()
	out = Protect(func() {
		d.Run(func() {
			l, err = ipfslog.NewFromEntryHash(w.ctx, st, Writers()[4].ID, cids[n-1], &ipfslog.LogOptions{ID: "A", IO: pbio}, &ipfslog.FetchOptions{Concurrency: conc})
		})
	})
	if out.Status == "violation" {
		r.Violate("C12:load-panic", "loading a legacy history containing a corrupted block (%s) panicked: %s", desc, out.Msg)
	} else if out.Status != "ok" {
		r.Harness("%s", out.Msg)
	}
	if err != nil || l == nil {
		r.Violate("C12:load-error", "loading a legacy history failed entirely because of one corrupted block (%s): %v", desc, err)
	}
	out = Protect(func() {
		_ = l.Values()
		_ = l.Heads()
	})
	if out.Status == "violation" {
		r.Violate("C12:loaded-log-panic", "a log loaded from a legacy history with a corrupted block (%s) panics when read: %s", desc, out.Msg)
	}
	if derr != nil {
		// the blocks above the corrupted one must still load
		if got := l.Len(); got != n-1-victim {
			r.Violate("C12:remaining-history", "legacy history of %d blocks with block %d undecodable (%s): loaded %d entries, %d remain retrievable", n, victim, desc, got, n-1-victim)
		}
	}
}

// enumerateStructMutations: every field path x every mutation kind on one stored entry block,
// decoded in-process; whatever decodes without error has every accessor, comparator and Verify
// called on it.
func (w *World) enumerateStructMutations(victim string, raw []byte, honest iface.IPFSLogEntry) {
	r := w.R
	count, decoded := 0, 0
	for _, path := range entryFieldPaths {
		for kind := range mutKinds {
			var obj map[string]interface{}
			if err := cbornode.DecodeInto(raw, &obj); err != nil {
				return
			}
			if !mutateObj(obj, path, kind) {
				continue
			}
			alt, err := encodeObj(obj)
			if err != nil {
				continue
			}
			count++
			w.St.GetFaults[victim] = FaultCorrupt
			w.St.Alt[victim] = alt
			var dec iface.IPFSLogEntry
			var derr error
			out := Protect(func() {
				dec, derr = entry.FromMultihashWithIO(w.ctx, w.St, w.Cids[victim], Writers()[0].ID.Provider, w.IO)
			})
			if out.Status == "violation" {
				r.Violate("C12:decode-panic", "decoding a corrupted entry block (struct:%s:%s) panicked: %s", path, mutKinds[kind], out.Msg)
			} else if out.Status != "ok" {
				r.Harness("%s", out.Msg)
			}
			if derr == nil && dec != nil {
				decoded++
				out := Protect(func() { exerciseEntry(w, dec, honest) })
				if out.Status == "violation" {
					r.Violate("C12:accessor-panic", "an entry decoded without error from a corrupted block (struct:%s:%s) is not safe to use: %s", path, mutKinds[kind], out.Msg)
				} else if out.Status != "ok" {
					r.Harness("%s", out.Msg)
				}
			}
		}
	}
	delete(w.St.GetFaults, victim)
	delete(w.St.Alt, victim)
	r.Add("enumerated-struct-mutations", int64(count))
	r.Add("enumerated-struct-mutations-still-decoding", int64(decoded))
	r.Probe("struct-mutations-enumerated-completely")
}
