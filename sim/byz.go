package sim

// Tampering faults: in-flight / at-rest corruption of exactly one signed field of
// an honest entry, and the "bad entry" kinds a byzantine sender can produce.

import (
	"bytes"
	"encoding/json"
	"fmt"

	"berty.tech/go-ipfs-log/entry"
	"berty.tech/go-ipfs-log/iface"
	"github.com/ipfs/go-cid"
	"github.com/libp2p/go-libp2p/core/crypto"
)

const (
	tPayloadByte = iota
	tLogID
	tNextAdd
	tNextDrop
	tNextOrder
	tRefsAdd
	tRefsDrop
	tRefsOrder
	tVersion
	tClockID
	tClockTime
	tKeySubst
	tSigSubst
	tSigFlip
	tClockIDEmpty
	tNextCodec
	tRefsCodec
	tKeyFlip
	tKeyResize
	tNextDup
	tRefsDup
	tPayloadSpace
	nTamper
)

// "invalid entry" kinds for C06 only (C07 is about single-field changes)

const (
	bUnsigned = nTamper + iota
	bNoKey
	bForeignID
	nBad
)

var tamperNames = [...]string{"payload-byte", "log-id", "next-add", "next-drop", "next-order", "refs-add", "refs-drop", "refs-order",
	"version", "clock-id", "clock-time", "key-substituted", "sig-substituted", "sig-bitflip", "clock-id-emptied", "next-link-codec", "refs-link-codec", "key-bitflip", "key-resized", "next-duplicated", "refs-duplicated", "payload-whitespace", "unsigned", "key-removed", "foreign-log-id"}

// dupLinksCanonicalised is set by the world while its codec is the link-encrypting one.
var dupLinksCanonicalised bool

type tamperResult struct {
	e         iface.IPFSLogEntry
	kind      int
	applied   bool
	detail    string
	invisible bool // payload change that the signed JSON cannot see (invalid UTF-8 -> U+FFFD)
}

func cloneEntry(e iface.IPFSLogEntry) *entry.Entry {
	c := e.Copy().(*entry.Entry)
	// Copy() shares the slices of payload/key/sig: detach what we may edit
	c.Payload = append([]byte(nil), c.Payload...)
	c.Key = append([]byte(nil), c.Key...)
	c.Sig = append([]byte(nil), c.Sig...)
	c.Next = append([]cid.Cid(nil), e.GetNext()...)
	c.Refs = append([]cid.Cid(nil), e.GetRefs()...)
	if len(c.AdditionalData) == 0 {
		c.AdditionalData = nil
	}
	return c
}

func signedJSONOfPayload(p []byte) string {
	b, _ := json.Marshal(string(p))
	return string(b)
}

// tamper applies kind to a detached copy of e. other is another honest entry
// (source of foreign cids, keys and signatures); otherKey a different public key.
func tamper(r *Run, e iface.IPFSLogEntry, kind int, other iface.IPFSLogEntry, otherKey []byte) tamperResult {
	c := cloneEntry(e)
	res := tamperResult{e: c, kind: kind}
	switch kind {
	case tPayloadByte:
		if len(c.Payload) == 0 {
			return res
		}
		i := r.Choose("t-pos", len(c.Payload))
		d := 1 + r.Choose("t-delta", 255)
		old := append([]byte(nil), c.Payload...)
		c.Payload[i] ^= byte(d)
		res.applied = true
		res.detail = fmt.Sprintf("payload[%d] %02x->%02x", i, old[i], c.Payload[i])
		res.invisible = signedJSONOfPayload(old) == signedJSONOfPayload(c.Payload)
	case tLogID:
		c.LogID = c.LogID + "x"
		res.applied = true
	case tNextAdd:
		if other == nil || containsCid(c.Next, other.GetHash()) {
			return res
		}
		c.Next = append(c.Next, other.GetHash())
		res.applied = true
	case tNextDrop:
		if len(c.Next) == 0 {
			return res
		}
		i := r.Choose("t-pos", len(c.Next))
		c.Next = append(c.Next[:i:i], c.Next[i+1:]...)
		res.applied = true
	case tNextOrder:
		if len(c.Next) < 2 {
			return res
		}
		c.Next[0], c.Next[1] = c.Next[1], c.Next[0]
		res.applied = true
	case tRefsAdd:
		if other == nil || containsCid(c.Refs, other.GetHash()) {
			return res
		}
		c.Refs = append(c.Refs, other.GetHash())
		res.applied = true
	case tRefsDrop:
		if len(c.Refs) == 0 {
			return res
		}
		i := r.Choose("t-pos", len(c.Refs))
		c.Refs = append(c.Refs[:i:i], c.Refs[i+1:]...)
		res.applied = true
	case tRefsOrder:
		if len(c.Refs) < 2 {
			return res
		}
		c.Refs[0], c.Refs[1] = c.Refs[1], c.Refs[0]
		res.applied = true
	case tVersion:
		if r.Choose("t-v", 2) == 0 {
			c.V = 1
		} else {
			c.V = 3
		}
		res.applied = true
	case tClockID:
		if otherKey == nil || string(otherKey) == string(c.Clock.ID) {
			return res
		}
		c.Clock = entry.NewLamportClock(append([]byte(nil), otherKey...), c.Clock.Time)
		res.applied = true
	case tClockTime:
		d := 1 + r.Choose("t-dt", 5)
		if r.Choose("t-sign", 2) == 0 && c.Clock.Time-d >= 0 {
			d = -d
		}
		c.Clock = entry.NewLamportClock(c.Clock.ID, c.Clock.Time+d)
		res.applied = true
	case tKeySubst:
		if otherKey == nil || string(otherKey) == string(c.Key) {
			return res
		}
		// (the same key in another encoding is no substitution of a different key)
		if a, errA := crypto.UnmarshalSecp256k1PublicKey(c.Key); errA == nil {
			if b, errB := crypto.UnmarshalSecp256k1PublicKey(otherKey); errB == nil && a.Equals(b) {
				r.Probe("key-reencoded-same-key")
				return res
			}
		}
		c.Key = append([]byte(nil), otherKey...)
		res.applied = true
	case tSigSubst:
		if other == nil || string(other.GetSig()) == string(c.Sig) {
			return res
		}
		c.Sig = append([]byte(nil), other.GetSig()...)
		res.applied = true
	case tSigFlip:
		if len(c.Sig) == 0 {
			return res
		}
		i := r.Choose("t-pos", len(c.Sig))
		c.Sig[i] ^= 1 << uint(r.Choose("t-bit", 8))
		res.applied = true
	case tNextCodec, tRefsCodec:
		// the same multihash under another codec is a different identifier
		lst := c.Next
		if kind == tRefsCodec {
			lst = c.Refs
		}
		if len(lst) == 0 {
			return res
		}
		i := r.Choose("t-pos", len(lst))
		codec := uint64(cid.Raw)
		if lst[i].Prefix().Codec == cid.Raw {
			codec = cid.DagProtobuf
		}
		lst[i] = cid.NewCidV1(codec, lst[i].Hash())
		res.applied = true
	case tNextDup:
		// (under the link-encrypting codec the pre-signature step works on a copy of the entry, and copies
		// drop repeated links: a repetition is canonicalised away there, nothing is claimed)
		if len(c.Next) == 0 || dupLinksCanonicalised {
			return res
		}
		c.Next = append(c.Next, c.Next[r.Choose("t-pos", len(c.Next))])
		res.applied = true
	case tPayloadSpace:
		// a change that a parser of the payload would not see: one blank of a structured payload becomes a tab
		// (or a blank is inserted after its first comma). The payload is bytes to the log: every byte is signed.
		i := bytes.IndexByte(c.Payload, ' ')
		j := bytes.IndexByte(c.Payload, ',')
		switch {
		case i >= 0:
			c.Payload[i] = '\t'
			res.detail = fmt.Sprintf("payload[%d] blank->tab", i)
		case j >= 0:
			c.Payload = append(c.Payload[:j+1], append([]byte{' '}, c.Payload[j+1:]...)...)
			res.detail = fmt.Sprintf("blank inserted at payload[%d]", j+1)
		default:
			return res
		}
		res.applied = true
	case tRefsDup:
		if len(c.Refs) == 0 || dupLinksCanonicalised {
			return res
		}
		c.Refs = append(c.Refs, c.Refs[r.Choose("t-pos", len(c.Refs))])
		res.applied = true
	case tKeyFlip:
		if len(c.Key) == 0 {
			return res
		}
		i := r.Choose("t-pos", len(c.Key))
		before, errB := crypto.UnmarshalSecp256k1PublicKey(c.Key)
		c.Key[i] ^= 1 << uint(r.Choose("t-bit", 8))
		// secp256k1 keys have several encodings (04.. uncompressed, 06../07.. hybrid): a flip that yields
		// another encoding of the same key is no substitution of a different key, and nothing is claimed
		if after, errA := crypto.UnmarshalSecp256k1PublicKey(c.Key); errB == nil && errA == nil && before.Equals(after) {
			r.Probe("key-reencoded-same-key")
			return res
		}
		res.applied = true
		res.detail = fmt.Sprintf("key bit flipped at byte %d of %d", i, len(c.Key))
	case tKeyResize:
		if len(c.Key) < 34 {
			return res
		}
		switch r.Choose("t-resize", 3) {
		case 0:
			c.Key = c.Key[:33]
		case 1:
			c.Key = append(c.Key, byte(r.Choose("t-byte", 256)))
		default:
			c.Key = c.Key[:len(c.Key)-1]
		}
		res.applied = true
		res.detail = fmt.Sprintf("key resized to %d bytes", len(c.Key))
	case tClockIDEmpty:
		if len(c.Clock.ID) == 0 {
			return res
		}
		c.Clock = entry.NewLamportClock([]byte{}, c.Clock.Time)
		res.applied = true
	case bUnsigned:
		c.Sig = nil
		res.applied = true
	case bNoKey:
		c.Key = nil
		res.applied = true
	case bForeignID:
		c.LogID = "other-log"
		res.applied = true
	}
	if res.detail == "" {
		res.detail = tamperNames[kind]
	}
	return res
}

func containsCid(xs []cid.Cid, c cid.Cid) bool {
	for _, x := range xs {
		if x.Equals(c) {
			return true
		}
	}
	return false
}
