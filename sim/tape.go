package sim

// Tape: the single source of every choice in a run. In generate mode values
// come from a xoshiro256** stream seeded with the run seed and are recorded;
// in replay mode they are read back (an exhausted tape yields 0). A run is a
// pure function of (tape, code).

import "fmt"

type xoshiro struct{ s [4]uint64 }

func splitmix64(x *uint64) uint64 {
	*x += 0x9e3779b97f4a7c15
	z := *x
	z = (z ^ (z >> 30)) * 0xbf58476d1ce4e5b9
	z = (z ^ (z >> 27)) * 0x94d049bb133111eb
	return z ^ (z >> 31)
}

func newXoshiro(seed uint64) *xoshiro {
	x := &xoshiro{}
	s := seed
	for i := range x.s {
		x.s[i] = splitmix64(&s)
	}
	return x
}

func rotl(x uint64, k uint) uint64 { return (x << k) | (x >> (64 - k)) }

func (x *xoshiro) next() uint64 {
	r := rotl(x.s[1]*5, 7) * 9
	t := x.s[1] << 17
	x.s[2] ^= x.s[0]
	x.s[3] ^= x.s[1]
	x.s[1] ^= x.s[2]
	x.s[0] ^= x.s[3]
	x.s[2] ^= t
	x.s[3] = rotl(x.s[3], 45)
	return r
}

// RunSeed derives the seed of run i of a property from the batch seed.
func RunSeed(batch uint64, prop string, i uint64) uint64 {
	s := batch
	h := splitmix64(&s)
	for _, c := range []byte(prop) {
		s ^= uint64(c)
		h ^= splitmix64(&s)
	}
	s ^= i * 0x9e3779b97f4a7c15
	h ^= splitmix64(&s)
	return h
}

type Tape struct {
	Replay bool
	Vals   []uint32 // raw 31-bit values; a choice in [0,n) is raw % n in both modes
	Marks  []int    // tape positions where a top-level step starts (for block shrinking)
	pos    int
	rng    *xoshiro
	Over   int // number of reads past the end in replay mode
}

// Generate mode is replay of an endless PRNG-derived tape that records what it
// consumed: the same raw values replayed give the same run, so the tape of a
// run that killed its process can be regenerated from the seed alone.
func NewGenTape(seed uint64) *Tape { return &Tape{rng: newXoshiro(seed)} }
func NewReplayTape(vals []uint32) *Tape {
	return &Tape{Replay: true, Vals: vals}
}

// RawTape returns the first n raw values of the generate-mode tape of seed.
func RawTape(seed uint64, n int) []uint32 {
	x := newXoshiro(seed)
	out := make([]uint32, n)
	for i := range out {
		out[i] = uint32(x.next() >> 33)
	}
	return out
}

// Choose returns a value in [0,n).
func (t *Tape) Choose(n int) int {
	if n <= 0 {
		panic(fmt.Sprintf("tape: Choose(%d)", n))
	}
	var v uint32
	if t.Replay {
		if t.pos < len(t.Vals) {
			v = t.Vals[t.pos]
		} else {
			t.Over++
		}
	} else {
		v = uint32(t.rng.next() >> 33)
		t.Vals = append(t.Vals, v)
	}
	t.pos++
	return int(v % uint32(n))
}

func (t *Tape) Mark() { t.Marks = append(t.Marks, t.pos) }

func (t *Tape) Pos() int { return t.pos }
