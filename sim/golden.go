package sim

// Golden interoperability vectors for C08: identifiers pinned by the repository's
// own tests (test/entry_test.go, test/utils_fixtures_test.go, test/utils.go), rebuilt
// here from the same fixed keys and compared bit-exactly, plus decoding of the
// legacy v0 (dag-pb) and v1 (dag-cbor) fixtures.

import (
	"bytes"
	"context"
	"encoding/hex"
	"sync"

	"berty.tech/go-ipfs-log/entry"
	idp "berty.tech/go-ipfs-log/identityprovider"
	"berty.tech/go-ipfs-log/iface"
	ks "berty.tech/go-ipfs-log/keystore"
	"github.com/ipfs/go-cid"
	ds "github.com/ipfs/go-datastore"
	dssync "github.com/ipfs/go-datastore/sync"
)

// keys of test/utils.go (NewIdentityDataStore)
var goldenKeys = map[string]string{
	"userA": "0a135ce157a9ccb8375c2fae0d472f1eade4b40b37704c02df923b78ca03c627",
	"userB": "855f70d3b5224e5af76c23db0792339ca8d968a5a802ff0c5b54d674ef01aaad",
	"userC": "291d4dc915d81e9ebe5627c3f5e7309e819e721ee75e63286baa913497d61c78",
	"userD": "faa2d697318a6f8daeb8f4189fc657e7ae1b24e18c91c3bb9b95ad3c0cc050f8",
	"02a38336e3a47f545a172c9f77674525471ebeda7d6c86140e7a778f67ded92260": "7c6140e9ae4c70eb11600b3d550cc6aac45511b5a660f4e75fe9a7c4e6d1c7b7",
	"03e0480538c2a39951d054e17ff31fde487cb1031d0044a037b53ad2e028a3e77c": "97f64ca2bf7bd6aa2136eb0aa3ce512433bd903b91d48b2208052d6ff286d080",
	"032f7b6ef0432b572b45fcaf27e7f6757cd4123ff5c5266365bec82129b8c5f214": "2b487a932233c8691024c951faaeac207be161797bdda7bd934c0125012a5551",
	"0358df8eb5def772917748fdf8a8b146581ad2041eae48d66cc6865f11783499a6": "1cd65d23d72932f5ca2328988d19a5b11fbab1f4c921ef2471768f1773bd56de",
}

func mustHex(s string) []byte {
	b, err := hex.DecodeString(s)
	if err != nil {
		panic(&harnessError{"golden: bad hex"})
	}
	return b
}

func mustCid(s string) cid.Cid {
	c, err := cid.Decode(s)
	if err != nil {
		panic(&harnessError{"golden: bad cid " + s})
	}
	return c
}

var (
	goldenOnce sync.Once
	goldenID   *idp.Identity
)

func goldenIdentity() *idp.Identity {
	goldenOnce.Do(func() {
		store := dssync.MutexWrap(ds.NewMapDatastore())
		for k, v := range goldenKeys {
			if err := store.Put(context.Background(), ds.NewKey(k), mustHex(v)); err != nil {
				panic(&harnessError{"golden: " + err.Error()})
			}
		}
		k, err := ks.NewKeystore(store)
		if err != nil {
			panic(&harnessError{"golden: " + err.Error()})
		}
		id, err := idp.CreateIdentity(context.Background(), &idp.CreateIdentityOptions{Keystore: k, ID: "userA", Type: "orbitdb"})
		if err != nil {
			panic(&harnessError{"golden: " + err.Error()})
		}
		goldenID = id
	})
	return goldenID
}

const v1Key = "048bef2231e64d5c7147bd4b8afb84abd4126ee8d8335e4b069ac0a65c7be711cea5c1b8d47bc20ebaecdca588600ddf2894675e78b2ef17cf49e7bbaf98080361"
const v0Key = "0411a0d38181c9374eca3e480ecada96b1a4db9375c5e08c3991557759d22f6f2f902d0dc5364a948035002504d825308b0c257b7cbb35229c2076532531f8f4ef"
const v0Sig = "3044022062f4cfc8b8f3cc01283b25eab3eeb295614bb0faa8bd20f026c1487ae663121102207ce415bd7423b66d695338c17122e937259f77d1e86494d3146436f0959fccc6"

func v1Identity(p idp.Interface) *idp.Identity {
	return &idp.Identity{
		ID:        "03e0480538c2a39951d054e17ff31fde487cb1031d0044a037b53ad2e028a3e77c",
		PublicKey: mustHex(v1Key),
		Signatures: &idp.IdentitySignature{
			ID:        mustHex("3045022100f5f6f10571d14347aaf34e526ce3419fd64d75ffa7aa73692cbb6aeb6fbc147102203a3e3fa41fa8fcbb9fc7c148af5b640e2f704b20b3a4e0b93fc3a6d44dffb41e"),
			PublicKey: mustHex("3044022020982b8492be0c184dc29de0a3a3bd86a86ba997756b0bf41ddabd24b47c5acf02203745fda39d7df650a5a478e52bbe879f0cb45c074025a93471414a56077640a4"),
		},
		Type:     "orbitdb",
		Provider: p,
	}
}

// RunGolden rebuilds the pinned vectors; any difference is a C08 violation.
func RunGolden(r *Run) {
	ctx := context.Background()
	st := NewStore()
	id := goldenIdentity()
	expect := func(what string, got cid.Cid, want string) {
		if !got.Equals(mustCid(want)) {
			r.Violate("C08:golden", "%s: identifier %s, pinned interoperability vector is %s", what, got.String(), mustCid(want).String())
		}
	}
	// v2 entries created with the fixed identity
	e1, err := entry.CreateEntry(ctx, st, id, &entry.Entry{Payload: []byte("hello"), LogID: "A"}, nil)
	if err != nil {
		r.Violate("C08:golden", "CreateEntry failed: %v", err)
	}
	expect("entry {payload hello, log A}", e1.GetHash(), "zdpuAsPdzSyeux5mFsFV1y3WeHAShGNi4xo22cYBYWUdPtxVB")
	e2, err := entry.CreateEntry(ctx, st, id, &entry.Entry{Payload: []byte("hello world"), LogID: "A"}, nil)
	if err != nil {
		r.Violate("C08:golden", "CreateEntry failed: %v", err)
	}
	expect("entry {payload hello world, log A}", e2.GetHash(), "zdpuAyvJU3TS7LUdfRxwAnJorkz6NfpAWHGypsQEXLZxcCCRC")
	e3, err := entry.CreateEntry(ctx, st, id, &entry.Entry{Payload: []byte("hello again"), LogID: "A", Next: []cid.Cid{e2.GetHash()}}, nil)
	if err != nil {
		r.Violate("C08:golden", "CreateEntry failed: %v", err)
	}
	expect("entry {hello again, next: hello world}", e3.GetHash(), "zdpuAnRGWKPkMHqumqdkRJtzbyW6qAGEiBRv61Zj3Ts4j9tQF")
	clk := entry.NewLamportClock(e2.GetClock().GetID(), e2.GetClock().GetTime()+1)
	e4, err := entry.CreateEntry(ctx, st, id, &entry.Entry{Payload: []byte("hello again"), LogID: "A", Next: []cid.Cid{e2.GetHash()}, Clock: clk}, nil)
	if err != nil {
		r.Violate("C08:golden", "CreateEntry failed: %v", err)
	}
	expect("entry {hello again, next: hello world, clock 1}", e4.GetHash(), "zdpuAqsN9Py4EWSfrGYZS8tuokWuiTd9zhS8dhr9XpSGQajP2")
	dec, err := entry.FromMultihash(ctx, st, e3.GetHash(), id.Provider)
	if err != nil || dec.GetLogID() != "A" || string(dec.GetPayload()) != "hello again" || len(dec.GetNext()) != 1 || !dec.GetNext()[0].Equals(e2.GetHash()) {
		r.Violate("C08:golden", "pinned v2 entry does not decode to its fields (err %v)", err)
	}
	// v1 fixtures
	v1a := &entry.Entry{Payload: []byte("one"), LogID: "A", Next: []cid.Cid{}, V: 1, Key: mustHex(v1Key),
		Sig:      mustHex("3045022100f72546c99cf30eda1d394d91209bdb4569408a792caf9dc7c6415fef37a3118d0220645c4a6d218f8fc478af5bab175aaa99e1505d70c2a00997aacafa8de697944e"),
		Identity: v1Identity(id.Provider), Clock: entry.NewLamportClock(mustHex(v1Key), 1)}
	h1, err := v1a.ToMultihash(ctx, st, nil)
	if err != nil {
		r.Violate("C08:golden", "v1 entry does not encode: %v", err)
	}
	expect("v1 fixture 'one'", h1, "zdpuAsJDrLKrAiU8M518eu6mgv9HzS3e1pfH5XC7LUsFgsK5c")
	v1b := &entry.Entry{Payload: []byte("two"), LogID: "A", Next: []cid.Cid{h1}, V: 1, Key: mustHex(v1Key),
		Sig:      mustHex("3045022100b85c85c59e6d0952f95e3839e48b43b4073ef26f6f4696d785ce64053cd5869a0220644a4a7a15ddcd2b152611b08bf23b9df7823846719f2d0e4b0aff64190ed146"),
		Identity: v1Identity(id.Provider), Clock: entry.NewLamportClock(mustHex(v1Key), 2)}
	h2, err := v1b.ToMultihash(ctx, st, nil)
	if err != nil {
		r.Violate("C08:golden", "v1 entry does not encode: %v", err)
	}
	expect("v1 fixture 'two'", h2, "zdpuAxgKyiM9qkP9yPKCCqrHer9kCqYyr7KbhucsPwwfh6JB3")
	d1, err := entry.FromMultihash(ctx, st, h2, id.Provider)
	if err != nil || d1.GetV() != 1 || string(d1.GetPayload()) != "two" || len(d1.GetNext()) != 1 || !d1.GetNext()[0].Equals(h1) ||
		!bytes.Equal(d1.GetKey(), mustHex(v1Key)) || d1.GetClock().GetTime() != 2 || d1.GetIdentity() == nil || d1.GetIdentity().ID != v1Identity(nil).ID {
		r.Violate("C08:golden", "legacy v1 block does not decode to its fields (err %v)", err)
	}
	// v0 fixtures (dag-pb, legacy codec)
	pbio := pbIO()
	v0 := &entry.Entry{Hash: mustCid("Qmc2DEiLirMH73kHpuFPbt3V65sBrnDWkJYSjUQHXXvghT"), LogID: "A", Payload: []byte("hello"), V: 0,
		Clock: entry.NewLamportClock(mustHex(v0Key), 0), Sig: mustHex(v0Sig), Key: mustHex(v0Key), Next: []cid.Cid{}}
	h0, err := entry.ToMultihashWithIO(ctx, v0, st, nil, pbio)
	if err != nil {
		r.Violate("C08:golden", "v0 entry does not encode: %v", err)
	}
	expect("v0 fixture 'hello'", h0, "Qmc2DEiLirMH73kHpuFPbt3V65sBrnDWkJYSjUQHXXvghT")
	v0w := &entry.Entry{Hash: mustCid("QmUKMoRrmsYAzQg1nQiD7Fzgpo24zXky7jVJNcZGiSAdhc"), LogID: "A", Payload: []byte("hello world"), V: 0,
		Clock: entry.NewLamportClock(mustHex(v0Key), 0), Sig: mustHex(v0Sig), Key: mustHex(v0Key), Next: []cid.Cid{}}
	hw, err := pbio.Write(ctx, st, iface.IPFSLogEntry(v0w), nil)
	if err != nil {
		r.Violate("C08:golden", "v0 entry does not encode: %v", err)
	}
	expect("v0 fixture 'hello world' written with the legacy codec", hw, "QmenUDpFksTa3Q9KmUJYjebqvHJcTF2sGQaCH7orY7bXKC")
	d0, err := entry.FromMultihashWithIO(ctx, st, hw, id.Provider, pbio)
	if err != nil || !d0.GetHash().Equals(hw) || string(d0.GetPayload()) != "hello world" || d0.GetLogID() != "A" || d0.GetV() != 0 ||
		!bytes.Equal(d0.GetKey(), mustHex(v0Key)) || !bytes.Equal(d0.GetSig(), mustHex(v0Sig)) || d0.GetClock().GetTime() != 0 || !bytes.Equal(d0.GetClock().GetID(), mustHex(v0Key)) {
		r.Violate("C08:golden", "legacy v0 block does not decode to its fields (err %v)", err)
	}
	r.Count("golden-vectors-checked")
}
