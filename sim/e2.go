package sim

// E2 scenarios: loading stored logs under a tape-chosen completion order of the
// outstanding block requests (C09, C10) and under injected block faults (C11, C12).

import (
	"context"
	"fmt"
	"sort"
	"time"

	ipfslog "berty.tech/go-ipfs-log"
	"berty.tech/go-ipfs-log/entry"
	"berty.tech/go-ipfs-log/iface"
	"github.com/ipfs/go-cid"
	cbornode "github.com/ipfs/go-ipld-cbor"
)

func sourceProfile(prop string, checks ...string) *Profile {
	p := &Profile{Prop: prop, Check: map[string]bool{}, MinSteps: 4, MaxSteps: 30, NoFaults: true, MemOnly: true}
	for _, c := range checks {
		p.Check[c] = true
	}
	if Tier == "thorough" {
		p.MaxSteps = 60
	}
	p.Weights[opAppend] = 40
	p.Weights[opJoinLive] = 12
	p.Weights[opSend] = 8
	p.Weights[opDeliver] = 10
	p.Weights[opSetID] = 1
	p.Weights[opBurst] = 1     // some stored logs are longer than any default concurrency, queue or pool
	p.Weights[opFan] = 1       // ... or wider
	p.Weights[opClockJump] = 2 // writers may carry Lamport clocks of any magnitude
	p.ClockJumps = true
	return p
}

const (
	ldManifest = iota
	ldJSON
	ldEntries
	ldHash
)

var loaderNames = [...]string{"NewFromMultihash", "NewFromJSON", "NewFromEntry", "NewFromEntryHash"}

type loadSpec struct {
	loader      int
	conc        int
	length      *int
	bias        int
	cancelRate  int
	spare       int
	timeoutless bool
	timeout     time.Duration
	exclude     []iface.IPFSLogEntry // entries the caller says it already holds (FetchOptions.Exclude)
}

type loadInputs struct {
	manifest cid.Cid
	json     *iface.JSONLog
	heads    []iface.IPFSLogEntry
	hash     cid.Cid
	set      map[string]bool
	single   bool
}

func (w *World) prepareInputs(n *Node) *loadInputs {
	return w.prepareInputsOf(n.Log, n.Set)
}

func (w *World) prepareInputsOf(l *ipfslog.IPFSLog, set map[string]bool) *loadInputs {
	in := &loadInputs{set: copySet(set)}
	c, err := l.ToMultihash(w.ctx)
	if err != nil {
		w.R.Violate(w.P.Prop+":publish-error", "ToMultihash on a non-empty log failed: %v", err)
	}
	in.manifest = c
	in.json = l.ToJSONLog()
	if hs := in.json.Heads; len(hs) > 1 && w.R.Choose("json-head-order", 2) == 0 {
		// the JSON form is the caller's data: it may list the heads in any order (here: rotated)
		k := 1 + w.R.Choose("json-rotate", len(hs)-1)
		in.json.Heads = append(append([]cid.Cid(nil), hs[k:]...), hs[:k]...)
	}
	in.heads = l.Heads().Slice()
	if len(in.heads) == 1 {
		in.single = true
		in.hash = in.heads[0].GetHash()
	}
	return in
}

// load runs one loader under the fetch driver.
func (w *World) load(in *loadInputs, sp loadSpec, rcv *Writer) (*ipfslog.IPFSLog, error, *FetchDriver) {
	var l *ipfslog.IPFSLog
	var err error
	if sp.loader == ldEntries {
		sp.spare = []int{0, 0, 1, 64}[w.R.Choose("caller-slice-spare", 4)]
	}
	d := &FetchDriver{R: w.R, St: w.St, Name: w.M.Name, HookBias: sp.bias, CancelRate: sp.cancelRate}
	ctx, cancel := context.WithCancel(w.ctx)
	defer cancel()
	if sp.cancelRate > 0 || sp.timeoutless {
		d.Cancel = cancel
	}
	w.withProgress(d)
	defer func() { w.curProgress = nil }()
	d.Run(func() { l, err = w.invokeLoader(ctx, in, sp, rcv, w.loadOpts()) })
	w.R.Add("fetch-steps", int64(d.Steps))
	if d.MainSemBlocked > 0 {
		w.R.Probe("fetch-main-blocked-on-semaphore")
	}
	return l, err, d
}

// abortedLoad: a load of some stored log that its caller gives up on (context cancelled while requests are
// outstanding or queued). Its result is of no interest; what the process does afterwards must not depend on it.
func (w *World) abortedLoad() {
	n := w.pickSource("abort-src")
	if n == nil {
		return
	}
	in := w.prepareInputs(n)
	sp := loadSpec{loader: w.pickLoader(in), conc: 1 + w.R.Choose("abort-conc", 2), bias: w.R.Choose("bias", 3), cancelRate: 150 + 100*w.R.Choose("abort-rate", 4)}
	if w.R.Choose("abort-limited", 2) == 0 {
		lim := 1 + w.R.Choose("abort-limit", len(in.set)+1)
		sp.length = &lim
	}
	_, err, d := w.load(in, sp, Writers()[4])
	w.R.Logf("aborted load of n%d via %s conc=%d: cancelled=%v err=%v steps=%d", n.Idx, loaderNames[sp.loader], sp.conc, d.Cancelled, err != nil, d.Steps)
	if d.Cancelled {
		w.R.Probe("load-after-an-aborted-load")
	}
	w.St.Reqs = nil
}

// invokeLoader calls one of the four loaders (no driver: the caller decides how requests are answered).
func (w *World) invokeLoader(ctx context.Context, in *loadInputs, sp loadSpec, rcv *Writer, o *ipfslog.LogOptions) (l *ipfslog.IPFSLog, err error) {
	switch sp.loader {
	case ldManifest:
		l, err = ipfslog.NewFromMultihash(ctx, w.St, rcv.ID, in.manifest, o, &ipfslog.FetchOptions{Concurrency: sp.conc, Length: sp.length, Timeout: sp.timeout, ProgressChan: w.curProgress, Exclude: sp.exclude})
	case ldJSON:
		given := append([]cid.Cid(nil), in.json.Heads...)
		fo := w.fetchOpts(sp.conc, sp.length, sp.timeout)
		fo.Exclude = sp.exclude
		l, err = ipfslog.NewFromJSON(ctx, w.St, rcv.ID, in.json, o, fo)
		if !cidsEq(given, in.json.Heads) {
			w.R.Violate(w.P.Prop+":caller-json-modified", "NewFromJSON rewrote the head list of the JSON form its caller passed: was %v now %v", given, in.json.Heads)
		}
	case ldEntries:
		// the caller's slice may have spare capacity (built with make/append): the library must neither
		// write into that capacity in a way that disturbs the result nor reorder what the caller passed
		src := make([]iface.IPFSLogEntry, len(in.heads), len(in.heads)+sp.spare)
		copy(src, in.heads)
		fo := w.fetchOpts(sp.conc, sp.length, sp.timeout)
		fo.Exclude = sp.exclude
		l, err = ipfslog.NewFromEntry(ctx, w.St, rcv.ID, src, o, fo)
		for i := range in.heads {
			if src[i] != in.heads[i] {
				w.R.Violate(w.P.Prop+":caller-slice-modified", "NewFromEntry changed element %d of the slice of entries its caller supplied", i)
			}
		}
	case ldHash:
		l, err = ipfslog.NewFromEntryHash(ctx, w.St, rcv.ID, in.hash, o, &ipfslog.FetchOptions{Concurrency: sp.conc, Length: sp.length, Timeout: sp.timeout, ProgressChan: w.curProgress, Exclude: sp.exclude})
	}
	return
}

func (w *World) pickSource(label string) *Node {
	var c []*Node
	for _, n := range w.Nodes {
		if n.Up && len(n.Set) > 0 {
			c = append(c, n)
		}
	}
	if len(c) == 0 {
		w.R.Choose(label, 1)
		return nil
	}
	return c[w.R.Choose(label, len(c))]
}

func (w *World) pickLoader(in *loadInputs) int {
	ld := w.R.Choose("loader", 4)
	if ld == ldHash && !in.single {
		ld = ldJSON
	}
	return ld
}

func (w *World) pickConc() int {
	return w.R.Choose("conc", 7) // 0 = library default
}

// ------------------------------------------------------------------ C09

// reloadDerived: "every log state" includes the state of a log that started from a length-limited load and
// caught up by merging. Once it holds a causally closed set again it must publish heads from which exactly
// that log is rebuilt.
func (w *World) reloadDerived() {
	r := w.R
	src, other := w.pickSource("derived-src"), w.pickSource("derived-other")
	limPick := r.Choose("derived-limit", 1<<16)
	if src == nil || other == nil || len(src.Set) < 2 || w.Codec == "pb" {
		return
	}
	lim := 1 + limPick%(len(src.Set)-1)
	heads := src.Log.Heads().Slice()
	var l *ipfslog.IPFSLog
	var err error
	w.driven(func(ctx context.Context) {
		l, err = ipfslog.NewFromEntry(ctx, w.St, src.W.ID, append([]iface.IPFSLogEntry(nil), heads...), w.loadOpts(), w.fetchOpts(0, &lim, 0))
	})
	if err != nil {
		r.Violate("C09:load-error", "length-limited load failed with no fault injected: %v", err)
	}
	if _, err := l.Join(w.clone(other, true), -1); err != nil {
		r.Violate("C09:join-error", "merge into a partially loaded log failed: %v", err)
	}
	held := hashSet(l.GetEntries())
	for h := range held {
		for _, nx := range w.M.Reg[h].Next {
			if !held[nx] {
				return // still not causally closed: a reload would fetch more than the log holds
			}
		}
	}
	r.Probe("reload-of-a-log-that-caught-up-after-a-limited-load")
	in := w.prepareInputsOf(l, held)
	sp := loadSpec{loader: w.pickLoader(in), conc: w.pickConc(), bias: r.Choose("bias", 3)}
	l2, err, _ := w.load(in, sp, Writers()[4])
	if err != nil {
		r.Violate("C09:load-error", "%s of a stored log failed with no fault injected: %v", loaderNames[sp.loader], err)
	}
	_, strict := w.M.Linear(held, w.ByHash)
	if d := w.sameObs(w.observe(l), w.observe(l2), strict); d != "" {
		r.Violate("C09:equal", "log rebuilt by %s from a log that had started from a length-limited load and caught up by merging differs from it: %s", loaderNames[sp.loader], d)
	}
	w.St.Reqs = nil
}

// reloadAliased: a log that holds one stored block as two entries - a replica was loaded from the
// raw-codec identifier of a head (a block store answers by multihash) and merged back. An odd state, but
// one the public API reaches, and its published heads must rebuild it like any other.
func (w *World) reloadAliased() {
	r := w.R
	n := w.pickSource("alias-src")
	pick := r.Choose("alias-head", 1<<16)
	if n == nil || w.Codec != "cbor" || w.LinkKeyBytes != nil {
		return
	}
	heads := w.M.Heads(n.Set)
	h := w.Cids[heads[pick%len(heads)]]
	rawCid := cid.NewCidV1(cid.Raw, h.Hash())
	var b *ipfslog.IPFSLog
	var err error
	w.driven(func(ctx context.Context) {
		b, err = ipfslog.NewFromEntryHash(ctx, w.St, n.W.ID, rawCid, w.loadOpts(), &ipfslog.FetchOptions{ProgressChan: w.curProgress})
	})
	if err != nil || b == nil {
		r.Logf("aliased: loading n%d from the raw-codec identifier of a head failed: %v", n.Idx, err)
		return
	}
	a := w.clone(n, true)
	if _, err := a.Join(b, -1); err != nil {
		r.Logf("aliased: merge refused: %v", err)
		return
	}
	if a.Len() == len(n.Set) {
		return // nothing was added: no alias in the log
	}
	r.Probe("log-holding-one-block-under-two-identifiers")
	in := &loadInputs{set: hashSet(a.GetEntries())}
	c, err := a.ToMultihash(w.ctx)
	if err != nil {
		r.Violate("C09:publish-error", "ToMultihash on a non-empty log failed: %v", err)
	}
	in.manifest, in.json, in.heads = c, a.ToJSONLog(), a.Heads().Slice()
	sp := loadSpec{loader: []int{ldManifest, ldJSON, ldEntries}[r.Choose("alias-loader", 3)], conc: w.pickConc(), bias: r.Choose("bias", 3)}
	l2, err, _ := w.load(in, sp, Writers()[4])
	if err != nil {
		r.Violate("C09:load-error", "%s of a stored log failed with no fault injected: %v", loaderNames[sp.loader], err)
	}
	if d := w.sameObs(w.observe(a), w.observe(l2), false); d != "" {
		r.Violate("C09:equal", "log rebuilt by %s from a log that holds one block under two identifiers differs from it: %s", loaderNames[sp.loader], d)
	}
	w.St.Reqs = nil
}

func c09Profile() *Profile {
	p := e0Profile("C09", "C09")
	p.NoFaults = true
	p.Weights[opPublish] = 12
	p.Weights[opByz], p.Weights[opRefused], p.Weights[opAlgebra], p.Weights[opSpecial] = 0, 0, 0, 0
	return p
}

func RunC09(r *Run) {
	// the source world is a full (fault-free) replica world: publications, manifests and head lists are
	// produced and consumed all along its history (deliveries and restarts check reload == source, too),
	// so that repeated publication of a log that changes in between is part of what is reloaded
	w := BuildWorld(r, c09Profile())
	for s := 0; s < 5; s++ {
		r.T.Mark()
		// the tape decides after each scenario whether another follows (0 = stop; an exhausted tape stops)
		if s > 0 && r.Choose("another-scenario", 3) == 0 {
			break
		}
		n := w.pickSource("src")
		if n == nil {
			break
		}
		if r.Choose("abort-before", 4) == 0 {
			w.abortedLoad()
		}
		in := w.prepareInputs(n)
		sp := loadSpec{loader: w.pickLoader(in), conc: w.pickConc(), bias: r.Choose("bias", 3)}
		if r.Choose("length-minus-one", 3) == 0 {
			// "no limit" said explicitly: a length of -1 instead of no length
			minusOne := -1
			sp.length = &minusOne
			r.Probe("unlimited-load-with-explicit-minus-one")
		}
		if r.Choose("with-held-entries", 4) == 0 {
			// the caller names entries of the log it already holds (originals or copies): the rebuilt log is the
			// whole log all the same
			for _, e := range liveSlice(n.Log.GetEntries()) {
				switch r.Choose("held?", 4) {
				case 0:
					sp.exclude = append(sp.exclude, e)
				case 1:
					sp.exclude = append(sp.exclude, e.Copy())
				}
			}
			r.Probe("reload-with-held-entries")
		}
		r.Logf("reload n%d via %s conc=%d bias=%d |set|=%d heads=%d held=%d", n.Idx, loaderNames[sp.loader], sp.conc, sp.bias, len(in.set), len(in.heads), len(sp.exclude))
		l, err, _ := w.load(in, sp, Writers()[4])
		if err != nil {
			r.Violate("C09:load-error", "%s of a stored log failed with no fault injected: %v", loaderNames[sp.loader], err)
		}
		if l.GetID() != w.LogID {
			r.Violate("C09:id", "%s rebuilt a log with id %q, the original has %q", loaderNames[sp.loader], l.GetID(), w.LogID)
		}
		_, strict := w.M.Linear(in.set, w.ByHash)
		if d := w.sameObs(w.observe(n.Log), w.observe(l), strict); d != "" {
			r.Violate("C09:equal", "log rebuilt by %s (concurrency %d) differs from the original: %s", loaderNames[sp.loader], sp.conc, d)
		}
		if len(in.heads) > 1 {
			r.Probe("reload-multi-head")
		}
		if len(w.St.Reqs) > 0 {
			w.St.Reqs = nil
		}
		if r.Choose("derived-log", 4) == 0 {
			w.reloadDerived()
		}
		if r.Choose("aliased-entry", 5) == 0 {
			w.reloadAliased()
		}
		// change some replica between two publications
		switch r.Choose("between", 3) {
		case 0:
			w.doJoinLive()
		case 1:
			w.doAppend()
		}
	}
	r.SimNS = w.Now * 1e6
}

// ------------------------------------------------------------------ C10

func (w *World) timeKey(h string) string {
	e := w.M.Reg[h]
	return fmt.Sprintf("%020d/%s", e.Time, e.ClockID)
}

// expectedLimited: supplied entries plus the most recent others in (time, id) order, up to
// min(max(n,k),size) in total. ambiguous is true when a comparator tie sits on the cut.
func (w *World) expectedLimited(set map[string]bool, supplied []string, n int) (want map[string]bool, count int, ambiguous bool) {
	size := len(set)
	k := len(supplied)
	count = n
	if k > count {
		count = k
	}
	if size < count {
		count = size
	}
	want = map[string]bool{}
	for _, h := range supplied {
		want[h] = true
	}
	var others []string
	for h := range set {
		if !want[h] {
			others = append(others, h)
		}
	}
	sort.Slice(others, func(i, j int) bool { // most recent first
		a, b := w.timeKey(others[i]), w.timeKey(others[j])
		if a != b {
			return a > b
		}
		return others[i] > others[j]
	})
	need := count - len(want)
	if need < 0 {
		need = 0
	}
	if need < len(others) && need > 0 && w.timeKey(others[need-1]) == w.timeKey(others[need]) {
		ambiguous = true
	}
	for _, h := range others[:need] {
		want[h] = true
	}
	return
}

func RunC10(r *Run) {
	w := BuildWorld(r, sourceProfile("C10"))
	for s := 0; s < 5; s++ {
		r.T.Mark()
		// the tape decides after each scenario whether another follows (0 = stop; an exhausted tape stops)
		if s > 0 && r.Choose("another-scenario", 3) == 0 {
			break
		}
		n := w.pickSource("src")
		if n == nil {
			break
		}
		if r.Choose("abort-before", 3) == 0 {
			w.abortedLoad()
		}
		in := w.prepareInputs(n)
		ld := w.pickLoader(in)
		if ld == ldEntries && r.Choose("supply-arbitrary", 2) == 0 {
			// the caller may start from any entries it holds, not only the heads: the stored log it
			// then sees is what those entries reach
			all := sortedKeys(n.Set)
			k := 1 + r.Choose("nsupplied", 3)
			chosen := map[string]bool{}
			var es []iface.IPFSLogEntry
			for i := 0; i < k; i++ {
				h := all[r.Choose("supplied", len(all))]
				if !chosen[h] {
					chosen[h] = true
					e, _ := n.Log.Get(w.Cids[h])
					es = append(es, e)
				}
			}
			in.heads = es
			in.set = w.reachable(sortedKeys(chosen), map[string]bool{}, map[string]bool{})
			r.Probe("supplied-non-head-entries")
		}
		size := len(in.set)
		limit := r.Choose("limit", size+3)
		var supplied []string
		switch ld {
		case ldEntries:
			for _, e := range in.heads {
				supplied = append(supplied, e.GetHash().String())
			}
		case ldHash:
			supplied = []string{in.hash.String()}
		}
		want, count, ambiguous := w.expectedLimited(in.set, supplied, limit)
		maxAllowed := limit
		if len(supplied) > maxAllowed {
			maxAllowed = len(supplied)
		}
		if limit == 0 {
			r.Probe("limit-zero")
		}
		if limit > size {
			r.Probe("limit-beyond-size")
		}
		var first []string
		reps := 2 + r.Choose("reps", 2)
		lim := limit // the caller keeps its limit in one variable and passes its address to every load
		for rep := 0; rep < reps; rep++ {
			sp := loadSpec{loader: ld, conc: w.pickConc(), bias: r.Choose("bias", 3), length: &lim}
			l, err, d := w.load(in, sp, Writers()[4])
			if lim != limit {
				r.Violate("C10:caller-limit-modified", "%s rewrote the caller's length limit from %d to %d", loaderNames[ld], limit, lim)
			}
			if err != nil {
				r.Violate("C10:load-error", "%s with length %d failed with no fault injected: %v", loaderNames[ld], limit, err)
			}
			got := sortedKeys(hashSet(l.GetEntries()))
			if vs := sortedCopy(hashSeq(l.Values())); joinS(vs) != joinS(got) {
				r.Violate("C10:values", "%s with length %d returned a log that holds %v but linearises %v", loaderNames[ld], limit, w.M.Names(got), w.M.Names(vs))
			}
			{
				held := hashSet(l.GetEntries())
				named := map[string]bool{}
				for h := range held {
					for _, nx := range w.M.Reg[h].Next {
						named[nx] = true
					}
				}
				var wantHeads []string
				for h := range held {
					if !named[h] {
						wantHeads = append(wantHeads, h)
					}
				}
				sort.Strings(wantHeads)
				if hs := sortedCopy(hashSeq(l.Heads())); joinS(hs) != joinS(wantHeads) {
					r.Violate("C10:heads", "%s with length %d returned a log with heads %v, its unreferenced entries are %v", loaderNames[ld], limit, w.M.Names(hs), w.M.Names(wantHeads))
				}
			}
			r.Logf("limited n%d via %s limit=%d size=%d k=%d conc=%d bias=%d -> %d entries (steps %d)", n.Idx, loaderNames[ld], limit, size, len(supplied), sp.conc, sp.bias, len(got), d.Steps)
			for _, h := range got {
				if !in.set[h] {
					r.Violate("C10:foreign", "%s returned %s which is not an entry of the stored log", loaderNames[ld], w.M.Name(h))
				}
			}
			if len(got) > maxAllowed {
				r.Violate("C10:over-limit", "%s with length %d (k=%d supplied) returned %d entries: more than the limit allows", loaderNames[ld], limit, len(supplied), len(got))
			}
			if len(got) != count {
				r.Violate("C10:count", "%s with length %d on a log of %d entries (k=%d supplied) returned %d entries, expected min(max(n,k),size)=%d (concurrency %d)",
					loaderNames[ld], limit, size, len(supplied), len(got), count, sp.conc)
			}
			for _, h := range supplied {
				if _, ok := l.Get(w.Cids[h]); !ok {
					r.Violate("C10:supplied", "%s with length %d dropped the supplied entry %s", loaderNames[ld], limit, w.M.Name(h))
				}
			}
			if !ambiguous {
				if joinS(got) != joinS(sortedKeys(want)) {
					r.Violate("C10:most-recent", "%s with length %d returned %v, the most recent are %v", loaderNames[ld], limit, w.M.Names(got), w.M.Names(sortedKeys(want)))
				}
			} else {
				r.Probe("limit-cut-on-tie")
			}
			if rep == 0 {
				first = got
			} else if !ambiguous && joinS(first) != joinS(got) {
				r.Violate("C10:schedule-dependent", "%s with length %d returned different entries under different completion orders: %v vs %v", loaderNames[ld], limit, w.M.Names(first), w.M.Names(got))
			}
		}
	}
	r.SimNS = w.Now * 1e6
}

// ------------------------------------------------------------------ C11

func (w *World) links(h string) []string {
	e := w.M.Reg[h]
	return append(append([]string(nil), e.Next...), e.Refs...)
}

// reachable: entries reachable from the heads along retrievable, non-excluded entries.
func (w *World) reachable(heads []string, bad map[string]bool, excluded map[string]bool) map[string]bool {
	out := map[string]bool{}
	stack := append([]string(nil), heads...)
	for len(stack) > 0 {
		h := stack[len(stack)-1]
		stack = stack[:len(stack)-1]
		if out[h] || bad[h] || excluded[h] {
			continue
		}
		if _, ok := w.M.Reg[h]; !ok {
			continue
		}
		out[h] = true
		stack = append(stack, w.links(h)...)
	}
	return out
}

var garbageCBOR = []byte{0xa1, 0x61, 0x76, 0x61, 0x78} // {"v":"x"}: valid dag-cbor, not an entry

// The undecodable blocks a load meets are not only noise: a block can be well-formed DAG-CBOR, carry the
// field names of an entry and still not be one (its clock, identity, key or links missing, null or of
// another type). corruptAlt picks the replacement bytes for block h: noise, or such a near-entry which
// the library's own point read refuses here and now (one it accepts is an entry, not a corrupt block).
var nearEntryPaths = []string{"clock", "clock", "identity", "clock.id", "clock.time", "key", "sig", "next", "refs", "identity.signatures", "identity.publicKey", "id", "payload", "v"}

func (w *World) corruptAlt(h string) []byte {
	r := w.R
	switch r.Choose("corrupt-how", 4) {
	case 0:
		return garbageCBOR
	case 1:
		return []byte{0xff, 0x00, 0x13}
	}
	raw, ok := w.St.Raw(w.Cids[h])
	if !ok {
		return garbageCBOR
	}
	var obj map[string]interface{}
	if err := cbornode.DecodeInto(raw, &obj); err != nil {
		return garbageCBOR
	}
	path := nearEntryPaths[r.Choose("near-entry-path", len(nearEntryPaths))]
	kind := r.Choose("near-entry-kind", 3) // absent, null, wrong-type
	if !mutateObj(obj, path, kind) {
		return garbageCBOR
	}
	alt, err := encodeObj(obj)
	if err != nil {
		return garbageCBOR
	}
	scratch := NewStore()
	scratch.PutRaw(w.Cids[h], alt)
	var derr error
	out := Protect(func() {
		_, derr = entry.FromMultihashWithIO(w.ctx, scratch, w.Cids[h], Writers()[0].ID.Provider, w.IO)
	})
	if out.Status == "violation" {
		r.Violate("C11:undecodable-panic", "reading a block that has the shape of an entry but %s %s panicked instead of failing: %s", path, mutKinds[kind], out.Msg)
	}
	if derr == nil {
		return garbageCBOR
	}
	r.Probe("corrupt-near-entry")
	return alt
}

func RunC11(r *Run) {
	w := BuildWorld(r, sourceProfile("C11"))
	for s := 0; s < 5; s++ {
		r.T.Mark()
		// the tape decides after each scenario whether another follows (0 = stop; an exhausted tape stops)
		if s > 0 && r.Choose("another-scenario", 3) == 0 {
			break
		}
		n := w.pickSource("src")
		if n == nil {
			break
		}
		all := sortedKeys(n.Set)
		heads := w.M.Heads(n.Set)
		// fault plan
		bad := map[string]bool{}
		stalls := 0
		w.St.GetFaults = map[string]GetFault{}
		w.St.Alt = map[string][]byte{}
		w.St.ErrFlavor = r.Choose("error-flavor", 3)
		small := len(all) <= 12
		mode := r.Choose("fault-mode", 4) // 0 none, 1 single fault, 2 few, 3 many
		nf := 0
		switch mode {
		case 1:
			nf = 1
		case 2:
			nf = 1 + r.Choose("nfaults", 3)
		case 3:
			nf = 1 + r.Choose("nfaults-many", len(all))
		}
		for i := 0; i < nf; i++ {
			h := all[r.Choose("fault-block", len(all))]
			k := GetFault(1 + r.Choose("fault-kind", 4))
			w.St.GetFaults[h] = k
			if k == FaultCorrupt {
				w.St.Alt[h] = w.corruptAlt(h)
			}
			bad[h] = true
		}
		for _, k := range w.St.GetFaults {
			if k == FaultStall {
				stalls++
			}
		}
		excluded := map[string]bool{}
		if r.Choose("exclude?", 2) == 0 {
			ne := 1 + r.Choose("nexcl", 2)
			for i := 0; i < ne; i++ {
				excluded[all[r.Choose("excl", len(all))]] = true
			}
		}
		conc := 1 + r.Choose("conc", 5)
		if r.Choose("conc-default", 6) == 0 {
			conc = 0
		}
		var headCids []cid.Cid
		for _, h := range heads {
			headCids = append(headCids, w.Cids[h])
		}
		if r.Choose("repeat-a-head", 5) == 0 {
			// the caller's list may name a hash twice (two peers announced the same head): still one request
			headCids = append(headCids, headCids[r.Choose("repeated-head", len(headCids))])
			r.Probe("requested-heads-name-a-hash-twice")
		}
		cancelRate := 0
		if r.Choose("random-cancel", 8) == 0 {
			cancelRate = 60
		}
		if small && r.Choose("enumerate-single-faults", 3) == 0 {
			// small log: every single block x every fault kind, completely (one fetch each)
			w.enumerateSingleFaults(n, all, heads, headCids, conc)
			continue
		}
		w.St.Reqs = nil
		w.St.ReqAfterCancel = 0
		headsGiven := append([]cid.Cid(nil), headCids...)
		defer func(given, used []cid.Cid) {
			if !cidsEq(given, used) {
				r.Violate("C11:caller-heads-modified", "the fetch rewrote the caller's list of heads: was %v now %v", given, used)
			}
		}(headsGiven, headCids)
		d := &FetchDriver{R: r, St: w.St, Name: w.M.Name, HookBias: r.Choose("bias", 3), CancelRate: cancelRate}
		ctx, cancel := context.WithCancel(w.ctx)
		d.Cancel = cancel
		var got []iface.IPFSLogEntry
		r.Logf("fetch n%d heads=%v conc=%d faults=%d(stall %d) excluded=%v small=%v", n.Idx, w.M.Names(heads), conc, len(bad), stalls, w.M.Names(sortedKeys(excluded)), small)
		d.Run(func() {
			got = entry.FetchAll(ctx, w.St, headCids, &entry.FetchOptions{Concurrency: conc, IO: w.IO,
				ShouldExclude: func(c cid.Cid) bool { return excluded[c.String()] }})
		})
		cancel()
		r.Add("fetch-steps", int64(d.Steps))
		if d.MainSemBlocked > 0 {
			r.Probe("fetch-main-blocked-on-semaphore")
		}
		if d.Leaked > 0 {
			r.Violate("C11:leak", "FetchAll returned while %d block requests or workers were still outstanding", d.Leaked)
		}
		var gs []string
		for _, e := range got {
			gs = append(gs, e.GetHash().String())
		}
		if hasDup(gs) {
			r.Violate("C11:duplicate-entry", "FetchAll returned an entry twice: %v", w.M.Names(gs))
		}
		reqs := append([]string(nil), w.St.Reqs...)
		seen := map[string]bool{}
		for _, q := range reqs {
			if seen[q] {
				r.Violate("C11:duplicate-request", "block %s was requested twice", w.M.Name(q))
			}
			seen[q] = true
			if excluded[q] {
				r.Violate("C11:excluded-requested", "excluded block %s was requested", w.M.Name(q))
			}
		}
		want := w.reachable(heads, bad, excluded)
		sort.Strings(gs)
		if d.Cancelled {
			r.Probe("fetch-cancelled")
			for _, h := range gs {
				if !want[h] {
					r.Violate("C11:unreachable-returned", "cancelled fetch returned %s which is not reachable along retrievable entries", w.M.Name(h))
				}
			}
			continue
		}
		if joinS(gs) != joinS(sortedKeys(want)) {
			r.Violate("C11:reachable-set", "fetch returned %v, reachable along retrievable non-excluded entries are %v (faulty %v, excluded %v)",
				w.M.Names(gs), w.M.Names(sortedKeys(want)), w.M.Names(sortedKeys(bad)), w.M.Names(sortedKeys(excluded)))
		}
		if len(bad) > 0 && len(want) < len(n.Set)-len(bad) {
			r.Probe("fault-cuts-off-history")
		}
	}
	w.St.GetFaults = map[string]GetFault{}
	r.SimNS = w.Now * 1e6
}

// enumerateSingleFaults: for a small stored log, every block is made faulty in every way, one at a
// time, and the unbounded fetch is checked against the reachable-set model each time.
func (w *World) enumerateSingleFaults(n *Node, all, heads []string, headCids []cid.Cid, conc int) {
	r := w.R
	bias := r.Choose("bias", 3)
	count := 0
	for _, h := range all {
		for k := FaultNotFound; k <= FaultStall; k++ {
			w.St.GetFaults = map[string]GetFault{h: k}
			w.St.Alt = map[string][]byte{h: garbageCBOR}
			w.St.Reqs = nil
			bad := map[string]bool{h: true}
			d := &FetchDriver{R: r, St: w.St, Name: w.M.Name, HookBias: bias}
			ctx, cancel := context.WithCancel(w.ctx)
			d.Cancel = cancel
			var got []iface.IPFSLogEntry
			d.Run(func() {
				got = entry.FetchAll(ctx, w.St, headCids, &entry.FetchOptions{Concurrency: conc, IO: w.IO})
			})
			cancel()
			count++
			if d.Leaked > 0 {
				r.Violate("C11:leak", "FetchAll returned while %d block requests or workers were still outstanding", d.Leaked)
			}
			var gs []string
			for _, e := range got {
				gs = append(gs, e.GetHash().String())
			}
			sort.Strings(gs)
			if hasDup(gs) {
				r.Violate("C11:duplicate-entry", "FetchAll returned an entry twice: %v", w.M.Names(gs))
			}
			seen := map[string]bool{}
			for _, q := range w.St.Reqs {
				if seen[q] {
					r.Violate("C11:duplicate-request", "block %s was requested twice (block %s %s)", w.M.Name(q), w.M.Name(h), k)
				}
				seen[q] = true
			}
			want := w.reachable(heads, bad, map[string]bool{})
			if d.Cancelled {
				for _, x := range gs {
					if !want[x] {
						r.Violate("C11:unreachable-returned", "cancelled fetch returned %s which is not reachable along retrievable entries", w.M.Name(x))
					}
				}
				continue
			}
			if joinS(gs) != joinS(sortedKeys(want)) {
				r.Violate("C11:reachable-set", "with block %s %s the fetch returned %v, reachable along retrievable entries are %v", w.M.Name(h), k, w.M.Names(gs), w.M.Names(sortedKeys(want)))
			}
		}
	}
	w.St.GetFaults = map[string]GetFault{}
	w.St.Alt = map[string][]byte{}
	r.Add("enumerated-single-fault-fetches", int64(count))
	r.Probe("single-faults-enumerated-completely")
	r.Logf("enumerated %d single-fault fetches on n%d (%d blocks x 4 kinds)", count, n.Idx, len(all))
}
