package sim

// E1 scenarios for C13 (one shared log) and C14 (merging from live logs).

import (
	"bytes"
	"context"
	"fmt"
	"reflect"
	"sort"
	"strings"
	"sync"
	"unsafe"

	ipfslog "berty.tech/go-ipfs-log"
	"berty.tech/go-ipfs-log/accesscontroller"
	"berty.tech/go-ipfs-log/entry"
	"berty.tech/go-ipfs-log/entry/sorting"
	"berty.tech/go-ipfs-log/identityprovider"
	"berty.tech/go-ipfs-log/iface"
	"github.com/ipfs/go-cid"
)

const (
	kAppend = iota
	kJoin
	kValues
	kHeads
	kRawHeads
	kEntries
	kGet
	kHas
	kLen
	kSnapshot
	kJSONLog
	kToMultihash
	kIterator
	kToString
	kSetIdentity
	kJoinBad
	nKinds
	kRecv = nKinds // the consumer of a streaming Iterator takes the next entry (not a log operation)
)

var kindNames = [...]string{"Append", "Join", "Values", "Heads", "RawHeads", "GetEntries", "Get", "Has", "Len", "ToSnapshot", "ToJSONLog", "ToMultihash", "Iterator", "ToString", "SetIdentity", "JoinBad", "Recv"}

type opDesc struct {
	kind    int
	target  int
	src     int
	payload []byte
	pc      int
	hash    cid.Cid
	writer  int
	proxy   bool
	bounded bool // Join with a size bound far above the merged size (must behave like the unbounded merge)
	trunc   int  // > 0: Join with this (small) size bound, which may really truncate the log
	iterUp  int  // Iterator: 0 default upper bound (the heads), 1 LTE hash, 2 LT hash
	pick    int  // Iterator with a bound: which of the entries the log holds at that moment (0: the first one)
	failAdd bool // the block write of this operation fails (disk error)
	stream  int  // > 0: Iterator streaming into / Recv taking from streams[stream-1], a channel too small for the result
	drain   bool // Recv: keep taking until the stream is over
}

type opRec struct {
	d        opDesc
	inv, ret int
	err      error
	hash     string   // append
	next     []string // append
	time     int
	seq      []string // values / iterator
	set      []string // heads / entries / snapshot heads
	flag     bool
	n        int
	task     int
	ent      iface.IPFSLogEntry // append: the entry returned (registered by the harness after the run)
	size     int                // join: the size bound used (-1: none)
	bound    string             // iterator: the upper bound used
}

type st struct {
	stamp int
	set   map[string]bool
	op    *opRec
	trunc bool // the state a size-bounded Join leaves after cutting
}

type statePoint struct {
	log   int
	stamp int
	set   map[string]bool
	op    *opRec
	trunc bool
}

type e1World struct {
	r      *Run
	st     *Store
	logs   []*ipfslog.IPFSLog
	names  []string
	init   []map[string]bool
	reg    map[string]*MEntry
	ctx    context.Context
	byHash bool
	evil   *ipfslog.IPFSLog
	io     iface.IO // non-nil: the link-sealing codec all logs of the scenario share
	// streaming iterations: the consumer takes the entries one by one and works on the logs in between
	streams []*stream
}

// per-task scratch (task-local; read by the harness only after the run)
type taskCtx struct {
	cur    *opRec
	curLog int
	points []statePoint
}

var taskCtxs map[*task]*taskCtx // written before the run, entries touched only by their own task

//go:norace
func e1SnapHook(site string) {
	if site != "Append:indexed" && site != "Join:indexed" && site != "Join:truncated" {
		return
	}
	t := curTask()
	if t == nil {
		return
	}
	tc := taskCtxs[t]
	if tc == nil || tc.cur == nil {
		return
	}
	w := curE1World
	l := w.logs[tc.curLog]
	set := map[string]bool{}
	for _, k := range l.Entries.Keys() {
		set[k] = true
	}
	tc.points = append(tc.points, statePoint{log: tc.curLog, stamp: S.now(), set: set, op: tc.cur, trunc: site == "Join:truncated"})
}

var curE1World *e1World

func (w *e1World) regEntry(e iface.IPFSLogEntry) {
	h := e.GetHash().String()
	if _, ok := w.reg[h]; ok {
		return
	}
	me := &MEntry{Idx: len(w.reg), Hash: h, Time: e.GetClock().GetTime(), ClockID: fmt.Sprintf("%x", e.GetClock().GetID()), Payload: string(e.GetPayload())}
	for _, c := range e.GetNext() {
		me.Next = append(me.Next, c.String())
	}
	w.reg[h] = me
}

func (w *e1World) name(h string) string {
	if e, ok := w.reg[h]; ok {
		return e.Payload
	}
	if len(h) > 6 {
		return "?" + h[len(h)-6:]
	}
	return "?" + h
}

func (w *e1World) names_(hs []string) []string {
	out := make([]string, len(hs))
	for i, h := range hs {
		out[i] = w.name(h)
	}
	return out
}

func (w *e1World) headsOf(set map[string]bool) []string {
	named := map[string]bool{}
	for h := range set {
		if e, ok := w.reg[h]; ok {
			for _, n := range e.Next {
				named[n] = true
			}
		}
	}
	var out []string
	for h := range set {
		if !named[h] {
			out = append(out, h)
		}
	}
	sort.Strings(out)
	return out
}

func (w *e1World) past(h string) map[string]bool {
	acc := map[string]bool{}
	stack := []string{h}
	for len(stack) > 0 {
		x := stack[len(stack)-1]
		stack = stack[:len(stack)-1]
		if e, ok := w.reg[x]; ok {
			for _, n := range e.Next {
				if !acc[n] {
					acc[n] = true
					stack = append(stack, n)
				}
			}
		}
	}
	return acc
}

func setKey(s map[string]bool) string { return joinS(sortedKeys(s)) }

// exec performs one operation on behalf of a task and records its result.
func (w *e1World) exec(t *task, tc *taskCtx, d opDesc) {
	e1Yield("op:" + kindNames[d.kind])
	rec := &opRec{d: d, task: t.id}
	tc.cur = rec
	tc.curLog = d.target
	l := w.logs[d.target]
	rec.inv = S.now()
	switch d.kind {
	case kAppend:
		e, err := l.Append(w.ctx, d.payload, &ipfslog.AppendOptions{PointerCount: d.pc})
		rec.err = err
		if err == nil {
			rec.ent = e
			rec.hash = e.GetHash().String()
			for _, c := range e.GetNext() {
				rec.next = append(rec.next, c.String())
			}
			rec.time = e.GetClock().GetTime()
		}
	case kJoin:
		var src iface.IPFSLog = w.logs[d.src]
		if d.proxy {
			src = proxyLog{src}
		}
		size := -1
		if d.bounded {
			size = 100000
		}
		if d.trunc > 0 {
			size = d.trunc
		}
		rec.size = size
		_, rec.err = l.Join(src, size)
	case kValues:
		rec.seq = hashSeq(l.Values())
	case kHeads:
		rec.set = hashSeq(l.Heads())
	case kRawHeads:
		rec.set = l.RawHeads().Keys()
	case kEntries:
		m := l.GetEntries()
		rec.set = append([]string(nil), m.Keys()...)
		e1Yield("reader-holds-entries")
		// what GetEntries handed out is a snapshot: it must not move under the reader, and iterating
		// it must not involve the log any more
		for _, e := range liveSlice(m) {
			rec.seq = append(rec.seq, e.GetHash().String())
		}
	case kGet:
		_, rec.flag = l.Get(d.hash)
	case kHas:
		rec.flag = l.Has(d.hash)
	case kLen:
		rec.n = l.Len()
	case kSnapshot:
		s := l.ToSnapshot()
		for _, c := range s.Heads {
			rec.set = append(rec.set, c.String())
		}
		for _, e := range s.Values {
			rec.seq = append(rec.seq, e.GetHash().String())
		}
	case kJSONLog:
		for _, c := range l.ToJSONLog().Heads {
			rec.set = append(rec.set, c.String())
		}
	case kToMultihash:
		var mc cid.Cid
		mc, rec.err = l.ToMultihash(w.ctx)
		if rec.err == nil {
			rec.hash = mc.String()
		}
		rec.n = len(t.blocks)
	case kIterator:
		ch := make(chan iface.IPFSLogEntry, 4096)
		io := &ipfslog.IteratorOptions{}
		bound := d.hash
		if d.iterUp != 0 && d.pick%3 != 0 {
			// a bound the application just saw in the log (the first entry of the index is the oldest one a
			// size-bounded merge kept: its predecessors may be gone)
			if ks := l.GetEntries().Keys(); len(ks) > 0 {
				k := ks[0]
				if d.pick%3 == 2 {
					k = ks[d.pick%len(ks)]
				}
				if c, err := cid.Decode(k); err == nil {
					bound = c
				}
			}
		}
		rec.bound = bound.String()
		switch d.iterUp {
		case 1:
			io.LTE = []cid.Cid{bound}
		case 2:
			io.LT = []cid.Cid{bound}
		}
		if d.stream > 0 {
			// the entries go to another task through a channel that cannot hold them all (rec.seq is put
			// together from that task's receipts after the run)
			st := w.streams[d.stream-1]
			func() {
				streamBegin(t, st)
				defer streamEnd(t, st)
				rec.err = l.Iterator(io, st.ch)
			}()
			break
		}
		rec.err = l.Iterator(io, ch)
		if rec.err == nil {
			for e := range ch {
				rec.seq = append(rec.seq, e.GetHash().String())
			}
		}
	case kRecv:
		var e iface.IPFSLogEntry
		if e, rec.flag = e1Recv(w.streams[d.stream-1]); rec.flag {
			rec.hash = e.GetHash().String()
		}
	case kToString:
		rec.n = len(strings.Split(l.ToString(nil), "\n"))
	case kSetIdentity:
		l.SetIdentity(E1Writers()[d.writer].ID)
	case kJoinBad:
		_, rec.err = l.Join(w.evil, -1)
	}
	rec.ret = S.now()
	tc.cur = nil
	t.ops = append(t.ops, rec)
}

type e1Config struct {
	prop    string
	shared  bool // C13: every task works on logs[0]; C14: any log
	nlogs   int
	ntasks  int
	tasks   [][]opDesc
	preJoin bool
	trunc   bool // some Join of the scenario has a small size bound: logs need not stay causally closed
}

func genE1(r *Run, prop string) (*e1World, *e1Config) {
	w := &e1World{r: r, st: NewStore(), reg: map[string]*MEntry{}, ctx: context.Background()}
	cfg := &e1Config{prop: prop, shared: prop != "C14" && prop != "C17"}
	w.byHash = r.Choose("ordering", 2) == 0
	cfg.nlogs = 2 + r.Choose("nlogs", 2)
	ws := E1Writers()
	sameWriter := r.Choose("same-writer", 4) == 0
	if prop == "C17" {
		// replicas of ONE writer, starting empty, drawing payloads from two values: they produce identical
		// entries and manifests at overlapping times, which is what concurrent block writes have to survive
		sameWriter = true
	}
	// in a third of the scenarios all logs share one link-sealing codec object (its pre-signature step then runs on
	// the verification goroutines of every merge, and inside every append)
	var sharedIO iface.IO
	if prop != "C17" && r.Choose("sealed-links", 3) == 0 {
		sharedIO = linkIO(linkKeyBytes(1))
		r.Probe("shared-link-sealing-codec")
	}
	w.io = sharedIO
	for i := 0; i < cfg.nlogs; i++ {
		o := &ipfslog.LogOptions{ID: "L", AccessController: e1Controller{}, Concurrency: uint([]int{0, 0, 1, 2}[r.Choose("log-concurrency", 4)]), IO: sharedIO}
		if w.byHash {
			o.SortFn = sortByHash
		}
		wi := i
		if sameWriter {
			wi = 0
		}
		l, err := ipfslog.NewLog(w.st, ws[wi].ID, o)
		if err != nil {
			r.Harness("NewLog: %v", err)
		}
		w.logs = append(w.logs, l)
		w.names = append(w.names, fmt.Sprintf("log%c", 'A'+i))
		n0 := r.Choose("init-entries", 4)
		if prop == "C17" {
			n0 = 0
		}
		for j := 0; j < n0; j++ {
			e, err := l.Append(w.ctx, []byte(fmt.Sprintf("%c%d", 'a'+i, j)), nil)
			if err != nil {
				r.Harness("setup append: %v", err)
			}
			w.regEntry(e)
		}
	}
	if r.Choose("pre-join", 3) == 0 {
		if _, err := w.logs[0].Join(w.logs[1], -1); err != nil {
			r.Harness("setup join: %v", err)
		}
	}
	if cfg.shared && r.Choose("derived-log", 3) == 0 {
		// a log built from the shared log's entries and heads, used next to it (appended to, merged from)
		o := &ipfslog.LogOptions{ID: "L", AccessController: e1Controller{}, Entries: w.logs[0].GetEntries(), Heads: w.logs[0].Heads().Slice(), IO: sharedIO}
		if w.byHash {
			o.SortFn = sortByHash
		}
		fork, err := ipfslog.NewLog(w.st, ws[0].ID, o)
		if err != nil {
			r.Harness("NewLog: %v", err)
		}
		w.logs = append(w.logs, fork)
		w.names = append(w.names, "forkOfA")
		cfg.nlogs++
	}
	for _, l := range w.logs {
		w.init = append(w.init, hashSet(l.GetEntries()))
	}
	w.makeEvil(r)
	var known []cid.Cid
	for _, l := range w.logs {
		for _, e := range liveSlice(l.GetEntries()) {
			known = append(known, e.GetHash())
		}
	}
	// C13 (in a third of its scenarios) and the concurrent sub-batches of C15/C16: merges with small size bounds
	truncating := prop == "C15" || prop == "C16" || ((prop == "C13" || prop == "C14") && r.Choose("with-truncation", 3) == 0)
	cfg.ntasks = 2 + r.Choose("ntasks", 3)
	maxOps := 4
	if Tier == "thorough" {
		cfg.ntasks = 2 + r.Choose("ntasks-thorough", 4)
		maxOps = 6
	}
	pseq := 0
	for ti := 0; ti < cfg.ntasks; ti++ {
		nops := 1 + r.Choose("nops", maxOps)
		var ops []opDesc
		for k := 0; k < nops; k++ {
			var d opDesc
			if cfg.shared {
				x := r.Choose("kind13", 32)
				switch {
				case x >= 30 || (x >= 27 && prop == "C13"):
					d.kind = kSetIdentity
				case x < 8:
					d.kind = kAppend
				case x < 12:
					d.kind = kJoin
				case x < 16:
					d.kind = kAppend
					d.target = 1 + r.Choose("src-log", cfg.nlogs-1) // a source log grows
				case x < 18:
					d.kind = kJoinBad
				case x >= 25 && prop == "C03":
					d.kind = kValues // the property is about this read
				case x >= 24 && prop == "C15":
					d.kind = kIterator
				case x >= 18 && x < 22 && prop == "C16":
					d.kind = kJoin
				case x >= 28 && prop == "C16":
					d.kind = kIterator
				default:
					// one of the read accessors, manifest publication or identity change (all 13 of them)
					d.kind = kValues + r.Choose("read-kind", kJoinBad-kValues)
				}
				if d.kind == kJoin {
					d.src = 1 + r.Choose("join-src", cfg.nlogs-1)
					if r.Choose("join-reverse", 3) == 0 {
						// the other way round: a source merges from the shared log (while the shared log merges from it)
						d.target, d.src = d.src, 0
					}
				}
			} else {
				x := r.Choose("kind14", 27)
				d.target = r.Choose("target", cfg.nlogs)
				switch {
				case x >= 24:
					d.kind = []int{kHas, kGet, kLen}[x-24] // the point reads of an application polling a log that others merge from
				case x >= 22:
					d.kind = kIterator // (with and without upper bounds; a refused bound must leave the log usable)
				case prop == "C17" && x >= 15 && x < 20:
					d.kind = kToMultihash
				case x >= 20:
					d.kind = kJoinBad // a merge that validation refuses is a merge too: it must come back
				case x < 7:
					d.kind = kAppend
				case x < 15:
					d.kind = kJoin
					d.src = (d.target + 1 + r.Choose("join-off", cfg.nlogs-1)) % cfg.nlogs
				case x < 17:
					d.kind = kHeads
				case x < 18:
					d.kind = kEntries
				case x < 19:
					d.kind = kValues
				default:
					d.kind = kSnapshot
				}
			}
			d.proxy = r.Choose("proxy", 4) != 0
			d.bounded = r.Choose("bounded", 4) == 0
			if truncating && d.kind == kJoin && r.Choose("truncate", 2) == 0 {
				d.trunc = 1 + r.Choose("trunc-size", 5)
				cfg.trunc = true
			}
			if truncating {
				// a source that may be cut while it is being read must be read in one critical section, which the
				// library can only do for its own log type: no wrapper between the logs here
				d.proxy = false
			}
			if d.kind == kIterator {
				d.iterUp = r.Choose("iter-upper", 3)
				d.pick = r.Choose("iter-pick", 1<<16)
			}
			d.failAdd = (d.kind == kAppend || d.kind == kToMultihash) && r.Choose("fail-add", 6) == 0
			d.pc = 1 << uint(r.Choose("pc", 4))
			d.writer = r.Choose("writer", len(ws))
			pseq++
			d.payload = []byte(fmt.Sprintf("t%d-%d", ti, pseq))
			if prop == "C17" {
				d.payload = []byte(fmt.Sprintf("dup%d", r.Choose("dup-payload", 2)))
			}
			if len(known) > 0 {
				d.hash = known[r.Choose("known", len(known))]
			} else if d.kind == kIterator {
				d.iterUp = 0
			} else if d.kind == kGet || d.kind == kHas {
				d.kind = kLen
			}
			ops = append(ops, d)
		}
		cfg.tasks = append(cfg.tasks, ops)
	}
	if (prop == "C13" || prop == "C14" || prop == "C15" || prop == "C16") && r.Choose("with-stream", 3) == 0 {
		// one more pair of tasks: an iteration that streams its result through a channel too small for it, and
		// the consumer of that stream, which works on the logs between two entries it takes (acknowledges what
		// it received, looks entries up, merges). Together with the writers among the other tasks.
		r.Probe("streaming-iterator-with-working-consumer")
		x := 0
		if !cfg.shared {
			x = r.Choose("stream-log", cfg.nlogs)
		}
		w.streams = append(w.streams, &stream{ch: make(chan iface.IPFSLogEntry, r.Choose("stream-cap", 3))})
		it := opDesc{kind: kIterator, target: x, stream: 1, iterUp: []int{0, 0, 1, 2}[r.Choose("stream-upper", 4)], pick: r.Choose("iter-pick", 1<<16)}
		if len(known) > 0 {
			it.hash = known[r.Choose("known", len(known))]
		} else {
			it.iterUp = 0
		}
		var prod, cons []opDesc
		if r.Choose("stream-late", 3) == 0 {
			pseq++
			prod = append(prod, opDesc{kind: kAppend, target: x, pc: 1, payload: []byte(fmt.Sprintf("t%d-%d", cfg.ntasks, pseq))})
		}
		prod = append(prod, it)
		nrecv := r.Choose("stream-recvs", 4)
		for k := 0; k < nrecv; k++ {
			cons = append(cons, opDesc{kind: kRecv, target: x, stream: 1})
			d := opDesc{target: x, pc: 1}
			switch r.Choose("consumer-op", 8) {
			case 0, 1:
				continue
			case 2, 3:
				pseq++
				d.kind, d.payload = kAppend, []byte(fmt.Sprintf("t%d-%d", cfg.ntasks+1, pseq))
			case 4:
				d.kind = kLen
			case 5:
				d.kind = kValues
			case 6:
				d.kind = kJoin
				other := (x + 1 + r.Choose("join-off", cfg.nlogs-1)) % cfg.nlogs
				if cfg.shared {
					d.src = 1 + r.Choose("join-src", cfg.nlogs-1)
				} else if r.Choose("stream-join-dir", 2) == 0 {
					d.target, d.src = other, x // a merge from the log that is being streamed
				} else {
					d.src = other
				}
			default:
				if len(known) == 0 {
					d.kind = kLen
				} else {
					d.kind, d.hash = []int{kGet, kHas}[r.Choose("point-read", 2)], known[r.Choose("known", len(known))]
				}
			}
			cons = append(cons, d)
		}
		cons = append(cons, opDesc{kind: kRecv, target: x, stream: 1, drain: true})
		cfg.tasks = append(cfg.tasks, prod, cons)
		cfg.ntasks += 2
	}
	return w, cfg
}

var sortByHash = func(a, b iface.IPFSLogEntry) (int, error) { return sorting.SortByEntryHash(a, b) }

var lockOffset = func() uintptr {
	f, ok := reflect.TypeOf(ipfslog.IPFSLog{}).FieldByName("lock")
	if !ok {
		panic(&harnessError{"IPFSLog has no field named lock"})
	}
	return f.Offset
}()

// RunE1 runs one scenario and evaluates the oracles of prop.
func RunE1(r *Run, prop string) {
	w, cfg := genE1(r, prop)
	curE1World = w
	defer func() { curE1World = nil }()
	taskCtxs = map[*task]*taskCtx{}
	var fns []func(t *task)
	var names []string
	for ti := range cfg.tasks {
		ops := cfg.tasks[ti]
		names = append(names, fmt.Sprintf("T%d", ti))
		fns = append(fns, func(t *task) {
			tc := taskCtxs[t]
			for _, d := range ops {
				w.exec(t, tc, d)
				for d.drain && t.ops[len(t.ops)-1].flag {
					w.exec(t, tc, d)
				}
			}
		})
		var ds []string
		for _, d := range ops {
			s := kindNames[d.kind] + "(" + w.names[d.target]
			if d.kind == kJoin {
				s += "<-" + w.names[d.src]
			}
			ds = append(ds, s+")")
		}
		r.Logf("T%d: %s", ti, strings.Join(ds, " "))
	}
	lockNames := map[*sync.RWMutex]string{}
	for i, l := range w.logs {
		lockNames[logLock(l)] = w.names[i] + ".lock"
	}
	// taskCtxs must be complete before any task starts: RunTasks creates the task objects, so
	// contexts are attached through a pre-start callback
	s := runTasksWithCtx(r, names, fns, lockNames)
	w.evaluate(s, cfg)
}

func runTasksWithCtx(r *Run, names []string, fns []func(t *task), lockNames map[*sync.RWMutex]string) *sched {
	preStart = func(ts []*task) {
		for _, t := range ts {
			taskCtxs[t] = &taskCtx{}
		}
	}
	defer func() { preStart = nil }()
	return RunTasks(r, names, fns, lockNames)
}

var preStart func(ts []*task)

// logLock returns the address of the unexported lock field (for naming locks in traces only).
func logLock(l *ipfslog.IPFSLog) *sync.RWMutex {
	return (*sync.RWMutex)(unsafe.Pointer(uintptr(unsafe.Pointer(l)) + lockOffset))
}

func (w *e1World) evaluate(s *sched, cfg *e1Config) {
	r := w.r
	prop := cfg.prop
	for _, t := range s.tasks {
		if t.stuck {
			// that task's goroutine was abandoned mid-operation: nothing it wrote may be read from here
			r.Violate(prop+":deadlock", "every task is blocked: %s", s.deadMsg)
		}
	}
	var all []*opRec
	var points []statePoint
	for _, t := range s.tasks {
		all = append(all, t.ops...)
		if tc := taskCtxs[t]; tc != nil {
			points = append(points, tc.points...)
		}
	}
	sort.Slice(all, func(i, j int) bool { return all[i].inv < all[j].inv })
	sort.Slice(points, func(i, j int) bool { return points[i].stamp < points[j].stamp })
	// a streaming iteration's result is what its consumer received, in that order
	{
		var ops []*opRec
		got := map[int][]string{}
		for _, o := range all {
			if o.d.kind == kRecv {
				if o.flag {
					got[o.d.stream] = append(got[o.d.stream], o.hash)
				}
				r.Logf("op T%d Recv [%d,%d] -> %v", o.task, o.inv, o.ret, o.flag)
				continue
			}
			ops = append(ops, o)
		}
		all = ops
		for _, o := range all {
			if o.d.kind == kIterator && o.d.stream > 0 {
				o.seq = got[o.d.stream]
				if o.err != nil && len(o.seq) > 0 {
					r.Violate(prop+":read-error", "Iterator on %s failed (%v) after handing out %d entries", w.names[o.d.target], o.err, len(o.seq))
				}
				if len(o.seq) > cap(w.streams[o.d.stream-1].ch) {
					r.Probe("stream-longer-than-its-channel")
				}
			}
		}
	}
	for _, o := range all {
		extra := ""
		if o.d.kind == kJoin {
			extra = fmt.Sprintf(" src=%s size=%d", w.names[o.d.src], o.size)
		} else if o.d.kind == kAppend {
			extra = fmt.Sprintf(" pc=%d", o.d.pc)
		}
		r.Logf("op T%d %s(%s) [%d,%d] err=%v%s", o.task, kindNames[o.d.kind], w.names[o.d.target], o.inv, o.ret, o.err != nil, extra)
	}
	if s.deadlock {
		r.Violate(prop+":deadlock", "every task is blocked: %s", s.deadMsg)
	}
	// registry: every entry an Append returned (a size-bounded merge may have cut it away again) and
	// every entry any log holds at the end
	for _, o := range all {
		if o.ent != nil {
			w.regEntry(o.ent)
		}
	}
	for _, l := range w.logs {
		for _, e := range liveSlice(l.GetEntries()) {
			w.regEntry(e)
		}
	}
	// per-log state sequences (exact: recorded inside the mutators' critical sections)
	seqs := make([][]st, len(w.logs))
	for i := range w.logs {
		seqs[i] = []st{{0, w.init[i], nil, false}}
	}
	for _, p := range points {
		seqs[p.log] = append(seqs[p.log], st{p.stamp, p.set, p.op, p.trunc})
	}
	// candidates: states of log i that held at some instant of [from,to]
	window := func(i, from, to int) []map[string]bool {
		var out []map[string]bool
		sq := seqs[i]
		for k := range sq {
			begins := sq[k].stamp
			ends := 1 << 60
			if k+1 < len(sq) {
				ends = sq[k+1].stamp
			}
			if begins <= to && ends > from {
				out = append(out, sq[k].set)
			}
		}
		return out
	}
	for i, l := range w.logs {
		final := hashSet(l.GetEntries())
		last := seqs[i][len(seqs[i])-1].set
		if !setEq(final, last) {
			if d := diff(sortedKeys(last), sortedKeys(final)); len(d) > 0 {
				r.Violate(prop+":entries-vanished", "%s ends with %d entries; %v were in it after its last mutation and are gone", w.names[i], len(final), w.names_(d))
			}
			r.Violate(prop+":unrecorded-mutation", "%s ends with entries %v that no Append or Join put there", w.names[i], w.names_(diff(sortedKeys(final), sortedKeys(last))))
		}
		// structural sanity of every final log
		heads := sortedCopy(hashSeq(l.Heads()))
		for _, h := range heads {
			if !final[h] {
				r.Violate(prop+":head-not-entry", "%s ends with head %s that is not one of its entries", w.names[i], w.name(h))
			}
		}
		if mh := w.headsOf(final); joinS(mh) != joinS(heads) {
			r.Violate(prop+":heads", "%s ends with heads %v, its unreferenced entries are %v", w.names[i], w.names_(heads), w.names_(mh))
		}
		for h := range final {
			if cfg.trunc {
				break // size-bounded merges legitimately cut predecessors away
			}
			for _, n := range w.reg[h].Next {
				if !final[n] {
					r.Violate(prop+":causal-closure", "%s holds %s without its predecessor %s", w.names[i], w.name(h), w.name(n))
				}
			}
		}
		// an identity change is atomic: the log's clock carries the key of the identity it signs with
		if l.Identity != nil && l.Clock != nil && !bytes.Equal(l.Clock.GetID(), l.Identity.PublicKey) {
			r.Violate(prop+":torn-identity", "%s ends signing with identity %x.. while its clock carries %x..", w.names[i], l.Identity.PublicKey[:6], l.Clock.GetID()[:6])
		}
		// at quiescence every read surface agrees with the entries the log holds
		quiet := func(what string, got []string) {
			if hasDup(got) {
				r.Violate(prop+":quiescent-read", "%s of %s after all tasks finished lists an entry twice", what, w.names[i])
			}
			gs := map[string]bool{}
			for _, h := range got {
				gs[h] = true
			}
			if !setEq(gs, final) {
				r.Violate(prop+":quiescent-read", "%s of %s after all tasks finished gives %v, the log holds %v", what, w.names[i], w.names_(sortedKeys(gs)), w.names_(sortedKeys(final)))
			}
		}
		quiet("Values", hashSeq(l.Values()))
		var sv []string
		for _, e := range l.ToSnapshot().Values {
			sv = append(sv, e.GetHash().String())
		}
		quiet("ToSnapshot", sv)
		if n := l.Len(); n != len(final) {
			r.Violate(prop+":quiescent-read", "Len of %s after all tasks finished is %d, the log holds %d entries", w.names[i], n, len(final))
		}
		ch := make(chan iface.IPFSLogEntry, len(final)+8)
		if err := l.Iterator(&ipfslog.IteratorOptions{}, ch); err == nil {
			var it []string
			for e := range ch {
				it = append(it, e.GetHash().String())
			}
			quiet("Iterator", it)
		}
		for h := range final {
			c, err := cid.Decode(h)
			if err == nil && !l.Has(c) {
				r.Violate(prop+":quiescent-read", "Has(%s) of %s after all tasks finished is false", w.name(h), w.names[i])
			}
		}
	}
	// mutators
	for i := range w.logs {
		sq := seqs[i]
		for k := 1; k < len(sq); k++ {
			prev, cur, o := sq[k-1].set, sq[k].set, sq[k].op
			if sq[k].trunc {
				w.checkTruncation(prop, i, prev, cur, o)
				continue
			}
			if d := diff(sortedKeys(prev), sortedKeys(cur)); len(d) > 0 {
				r.Violate(prop+":entries-vanished", "%s held %v before a %s and no longer after it", w.names[i], w.names_(d), kindNames[o.d.kind])
			}
			switch o.d.kind {
			case kAppend:
				if o.err != nil {
					continue
				}
				want := copySet(prev)
				want[o.hash] = true
				if !setEq(cur, want) {
					r.Violate(prop+":append-effect", "Append on %s changed the entry set by other than the new entry", w.names[i])
				}
				if nx, hd := sortedCopy(o.next), w.headsOf(prev); joinS(nx) != joinS(hd) {
					r.Violate(prop+":append-next", "entry %s appended to %s names %v, the heads at that instant were %v", w.name(o.hash), w.names[i], w.names_(nx), w.names_(hd))
				}
				for h := range prev {
					if w.reg[h] != nil && w.reg[h].Time >= o.time {
						r.Violate(prop+":append-clock", "entry %s appended to %s has time %d, the log held time %d", w.name(o.hash), w.names[i], o.time, w.reg[h].Time)
					}
				}
			case kJoin:
				// C14: the result is the union with a state the source really had between call and (this) instant
				cands := window(o.d.src, o.inv, sq[k].stamp)
				ok := false
				for _, c := range cands {
					u := copySet(prev)
					if cfg.trunc {
						// logs that were cut are not causally closed: a merge takes what it reaches from the
						// source's heads before it meets an entry the log already holds
						union(u, w.reachedBefore(c, prev))
					} else {
						union(u, c)
					}
					if setEq(u, cur) {
						ok = true
						break
					}
				}
				if len(cands) > 1 {
					r.Probe("join-overlaps-source-mutation")
				}
				if !ok {
					var cs []string
					for _, c := range cands {
						cs = append(cs, fmt.Sprintf("%v", w.names_(sortedKeys(c))))
					}
					r.Violate(prop+":join-snapshot", "%s.Join(%s) went from %v to %v; the source held, between call and merge, one of %s - the result is not the union with any of them",
						w.names[i], w.names[o.d.src], w.names_(sortedKeys(prev)), w.names_(sortedKeys(cur)), strings.Join(cs, " | "))
				}
			}
		}
	}
	// what an operation returned is in the store: the block of an appended entry, or of a published manifest,
	// was written (by this task or by another one writing the same block) before the operation returned,
	// and every entry block only after the blocks it links to
	written := map[string]int{}
	for _, t := range s.tasks {
		for k, b := range t.blocks {
			c := b.Cid().String()
			if at, ok := written[c]; !ok || t.blockAt[k] < at {
				written[c] = t.blockAt[k]
			}
		}
	}
	for _, o := range all {
		if o.err != nil || o.hash == "" || (o.d.kind != kAppend && o.d.kind != kToMultihash) || o.d.failAdd {
			continue
		}
		at, ok := written[o.hash]
		if !ok {
			if c, err := cid.Decode(o.hash); err == nil && w.st.Has(c) {
				continue // written during the setup
			}
			r.Violate(prop+":acknowledged-before-written", "%s on %s returned %s, whose block was never written", kindNames[o.d.kind], w.names[o.d.target], w.name(o.hash))
		}
		if at > o.ret {
			r.Violate(prop+":acknowledged-before-written", "%s on %s returned %s at step %d, its block reached the store at step %d", kindNames[o.d.kind], w.names[o.d.target], w.name(o.hash), o.ret, at)
		}
	}
	for _, t := range s.tasks {
		for k, b := range t.blocks {
			for _, l := range b.Links() {
				lc := l.Cid.String()
				if at, ok := written[lc]; ok && at > t.blockAt[k] {
					r.Violate(prop+":closure", "block %s was written at step %d, before the block %s it links to (step %d)", w.name(b.Cid().String()), t.blockAt[k], w.name(lc), at)
				} else if !ok && !w.st.Has(l.Cid) {
					r.Violate(prop+":closure", "block %s was written but the block %s it links to never was", w.name(b.Cid().String()), w.name(lc))
				}
			}
		}
	}
	// a size-bounded merge that returned success has cut: the state it leaves holds at most that many entries
	for _, o := range all {
		if o.d.kind != kJoin || o.err != nil || o.size < 0 {
			continue
		}
		var last *st
		for k := range seqs[o.d.target] {
			if seqs[o.d.target][k].op == o {
				last = &seqs[o.d.target][k]
			}
		}
		if last != nil && len(last.set) > o.size {
			r.Violate(prop+":truncation", "%s.Join(size %d) returned leaving %d entries in the log (no cut was made: %v)", w.names[o.d.target], o.size, len(last.set), !last.trunc)
		}
	}
	for _, o := range all {
		if o.d.kind == kAppend && o.d.failAdd {
			r.Probe("append-with-failing-block-write")
			if o.err == nil {
				r.Violate(prop+":acknowledged-lost-write", "Append on %s returned an entry although its block write failed", w.names[o.d.target])
			}
		}
	}
	// a successful mutator must have produced exactly one state point
	for _, o := range all {
		if o.err != nil {
			continue
		}
		cnt := 0
		for _, p := range points {
			if p.op == o {
				cnt++
			}
		}
		if o.d.kind == kAppend && cnt != 1 {
			r.Violate(prop+":append-once", "a successful Append produced %d state changes", cnt)
		}
	}
	// appends on one log: real-time order implies causal order; all form one chain
	for i := range w.logs {
		var aps []*opRec
		for _, o := range all {
			if o.d.kind == kAppend && o.d.target == i && o.err == nil {
				aps = append(aps, o)
			}
		}
		final := hashSet(w.logs[i].GetEntries())
		for _, a := range aps {
			if !final[a.hash] && !cfg.trunc {
				r.Violate(prop+":append-lost", "entry %s returned by Append is not in %s at the end", w.name(a.hash), w.names[i])
			}
		}
		for _, a := range aps {
			if cfg.trunc {
				break // a cut may remove an earlier append from the log before the next one: no chain is implied
			}
			pa := w.past(a.hash)
			for _, b := range aps {
				if a == b {
					continue
				}
				if b.ret < a.inv && !pa[b.hash] {
					r.Violate(prop+":append-order", "Append of %s to %s began after Append of %s had returned, but does not have it in its causal past", w.name(a.hash), w.names[i], w.name(b.hash))
				}
				if !pa[b.hash] && !w.past(b.hash)[a.hash] {
					r.Violate(prop+":append-chain", "concurrent Appends %s and %s on %s are not serialised into one chain", w.name(a.hash), w.name(b.hash), w.names[i])
				}
			}
		}
		if len(aps) > 1 {
			r.Probe("concurrent-appends-one-log")
		}
	}
	// reads: each must equal a state the log had during the call
	for _, o := range all {
		i := o.d.target
		cands := window(i, o.inv, o.ret)
		match := func(f func(set map[string]bool) bool) bool {
			for _, c := range cands {
				if f(c) {
					return true
				}
			}
			return false
		}
		describe := func() string {
			var cs []string
			for _, c := range cands {
				cs = append(cs, fmt.Sprintf("%v", w.names_(sortedKeys(c))))
			}
			return strings.Join(cs, " | ")
		}
		if o.d.kind == kIterator && o.d.iterUp != 0 {
			w.checkBoundedIterator(prop, i, o, cands, describe)
			continue
		}
		switch o.d.kind {
		case kValues, kIterator, kSnapshot:
			if o.err != nil {
				r.Violate(prop+":read-error", "%s on %s failed: %v", kindNames[o.d.kind], w.names[i], o.err)
			}
			seq := o.seq
			if o.d.kind == kIterator {
				seq = append([]string(nil), o.seq...)
				for a, b := 0, len(seq)-1; a < b; a, b = a+1, b-1 {
					seq[a], seq[b] = seq[b], seq[a]
				}
			}
			if hasDup(seq) {
				r.Violate(prop+":read-duplicate", "%s on %s lists an entry twice: %v", kindNames[o.d.kind], w.names[i], w.names_(seq))
			}
			ss := map[string]bool{}
			pos := map[string]int{}
			for p, h := range seq {
				ss[h] = true
				pos[h] = p
			}
			if !match(func(c map[string]bool) bool { return setEq(c, ss) }) {
				r.Violate(prop+":read-state", "%s on %s returned %v, which is no state the log had during the call (%s)", kindNames[o.d.kind], w.names[i], w.names_(seq), describe())
			}
			for _, h := range seq {
				if e, ok := w.reg[h]; ok {
					for _, n := range e.Next {
						if p, in := pos[n]; in && p > pos[h] {
							r.Violate(prop+":read-causal", "%s on %s places %s before its predecessor %s", kindNames[o.d.kind], w.names[i], w.name(h), w.name(n))
						}
					}
				}
			}
			if o.d.kind == kSnapshot {
				if hs, mh := sortedCopy(o.set), w.headsOf(ss); joinS(hs) != joinS(mh) {
					r.Violate(prop+":snapshot-heads", "ToSnapshot of %s has heads %v but values whose unreferenced entries are %v", w.names[i], w.names_(hs), w.names_(mh))
				}
			}
		case kHeads, kRawHeads, kJSONLog:
			hs := sortedCopy(o.set)
			if !match(func(c map[string]bool) bool { return joinS(w.headsOf(c)) == joinS(hs) }) {
				r.Violate(prop+":read-state", "%s on %s returned %v, which are the heads of no state the log had during the call (%s)", kindNames[o.d.kind], w.names[i], w.names_(hs), describe())
			}
		case kEntries:
			if joinS(sortedCopy(o.set)) != joinS(sortedCopy(o.seq)) {
				r.Violate(prop+":snapshot-moved", "the entries returned by GetEntries on %s changed while the reader held them: %d then %d", w.names[i], len(o.set), len(o.seq))
			}
			ss := map[string]bool{}
			for _, h := range o.set {
				ss[h] = true
			}
			if !match(func(c map[string]bool) bool { return setEq(c, ss) }) {
				r.Violate(prop+":read-state", "GetEntries on %s returned %v, which is no state the log had during the call (%s)", w.names[i], w.names_(sortedKeys(ss)), describe())
			}
		case kLen:
			if !match(func(c map[string]bool) bool { return len(c) == o.n }) {
				r.Violate(prop+":read-state", "Len on %s returned %d, no state during the call has that size (%s)", w.names[i], o.n, describe())
			}
		case kGet, kHas:
			h := o.d.hash.String()
			if !match(func(c map[string]bool) bool { return c[h] == o.flag }) {
				r.Violate(prop+":read-state", "%s(%s) on %s returned %v, contradicting every state during the call", kindNames[o.d.kind], w.name(h), w.names[i], o.flag)
			}
		case kJoinBad:
			if o.err == nil {
				r.Violate(prop+":invalid-admitted", "a merge of a batch with several invalid entries into %s returned no error", w.names[i])
			}
			r.Probe("join-with-several-invalid-entries")
		case kToMultihash:
			if o.d.failAdd {
				if o.err == nil && !match(func(c map[string]bool) bool { return len(c) == 0 }) {
					r.Violate(prop+":acknowledged-lost-write", "ToMultihash on %s returned a manifest although its block write failed", w.names[i])
				}
			} else if o.err != nil && !match(func(c map[string]bool) bool { return len(c) == 0 }) {
				r.Violate(prop+":read-error", "ToMultihash on non-empty %s failed: %v", w.names[i], o.err)
			}
		}
	}
	if prop != "C14" && !cfg.trunc {
		w.porcupineCheck(all, seqs0(seqs), cfg)
	}
}

func seqs0(x interface{}) interface{} { return x }

// checkBoundedIterator: Iterator with an inclusive or exclusive upper bound on a shared log: an error only
// if some state during the call did not hold the bound; otherwise exactly the causal past of the bound
// (inside the log) in one of the states the log had during the call, newest first, no duplicates.
func (w *e1World) checkBoundedIterator(prop string, i int, o *opRec, cands []map[string]bool, describe func() string) {
	r := w.r
	b := o.bound
	what := fmt.Sprintf("Iterator(%s %s) on %s", [...]string{"", "LTE", "LT"}[o.d.iterUp], w.name(b), w.names[i])
	r.Probe("concurrent-iterator-with-upper-bound")
	if o.err != nil {
		for _, c := range cands {
			if !c[b] {
				return
			}
			if e, ok := w.reg[b]; ok && o.d.iterUp == 2 {
				// an exclusive bound starts from the bound's predecessors: in a log that a size-bounded merge has
				// cut they may be gone, and whether that is an empty range or an error is not specified
				for _, nx := range e.Next {
					if !c[nx] {
						return
					}
				}
			}
		}
		r.Violate(prop+":read-error", "%s failed although the log held the bound (and its predecessors) during the whole call: %v", what, o.err)
	}
	if hasDup(o.seq) {
		r.Violate(prop+":read-duplicate", "%s lists an entry twice: %v", what, w.names_(o.seq))
	}
	got := map[string]bool{}
	for _, h := range o.seq {
		got[h] = true
	}
	for _, c := range cands {
		if !c[b] {
			continue
		}
		starts := []string{b}
		if o.d.iterUp == 2 {
			starts = nil
			if e, ok := w.reg[b]; ok {
				starts = e.Next
			}
		}
		want := map[string]bool{}
		stack := append([]string(nil), starts...)
		for len(stack) > 0 {
			h := stack[len(stack)-1]
			stack = stack[:len(stack)-1]
			if want[h] || !c[h] {
				continue
			}
			want[h] = true
			if e, ok := w.reg[h]; ok {
				stack = append(stack, e.Next...)
			}
		}
		if setEq(want, got) {
			return
		}
	}
	r.Violate(prop+":read-state", "%s returned %v, which is the causal past of the bound in no state the log had during the call (%s)", what, w.names_(o.seq), describe())
}

// reachedBefore: the entries of src reachable from src's heads along predecessors inside src, not
// walking through (or taking) entries that known already holds.
func (w *e1World) reachedBefore(src, known map[string]bool) map[string]bool {
	out := map[string]bool{}
	stack := w.headsOf(src)
	for len(stack) > 0 {
		h := stack[len(stack)-1]
		stack = stack[:len(stack)-1]
		if out[h] || known[h] || !src[h] {
			continue
		}
		out[h] = true
		if e, ok := w.reg[h]; ok {
			stack = append(stack, e.Next...)
		}
	}
	return out
}

// checkTruncation: the cut of a size-bounded Join, taken in the same critical section as its merge: the log
// keeps exactly the last min(n, total) entries of the linearisation of what it held after merging.
func (w *e1World) checkTruncation(prop string, i int, prev, cur map[string]bool, o *opRec) {
	r := w.r
	r.Probe("concurrent-truncating-merge")
	for h := range cur {
		if !prev[h] {
			r.Violate(prop+":truncation", "the cut of %s.Join(size %d) left %s, which the log did not hold after merging", w.names[i], o.size, w.name(h))
		}
	}
	k := o.size
	if k > len(prev) {
		k = len(prev)
	}
	if len(cur) != k {
		r.Violate(prop+":truncation", "%s.Join(size %d) on a merged log of %d entries %v left %d %v, want %d", w.names[i], o.size, len(prev), w.names_(sortedKeys(prev)), len(cur), w.names_(sortedKeys(cur)), k)
	}
	xs := make([]*MEntry, 0, len(prev))
	for h := range prev {
		if w.reg[h] == nil {
			return
		}
		xs = append(xs, w.reg[h])
	}
	sort.Slice(xs, func(a, b int) bool {
		if xs[a].Time != xs[b].Time {
			return xs[a].Time < xs[b].Time
		}
		if xs[a].ClockID != xs[b].ClockID {
			return xs[a].ClockID < xs[b].ClockID
		}
		return xs[a].Hash < xs[b].Hash
	})
	for j := 1; j < len(xs); j++ {
		if !w.byHash && xs[j].Time == xs[j-1].Time && xs[j].ClockID == xs[j-1].ClockID {
			return // comparator tie: which entry sits at the cut is not determined
		}
	}
	for _, x := range xs[len(xs)-k:] {
		if !cur[x.Hash] {
			r.Violate(prop+":truncation", "%s.Join(size %d) dropped %s, one of the last %d entries of the merged log's linearisation", w.names[i], o.size, w.name(x.Hash), k)
		}
	}
}

var _ = entry.NewOrderedMap

// makeEvil prepares a static log holding several new entries, at least two of them invalid,
// so that Join's verification workers report more than one failure concurrently.
func (w *e1World) makeEvil(r *Run) {
	ws := E1Writers()
	o := &ipfslog.LogOptions{ID: "L", IO: w.io}
	scratch, err := ipfslog.NewLog(w.st, ws[3].ID, o)
	if err != nil {
		r.Harness("NewLog: %v", err)
	}
	n := 3 + r.Choose("evil-size", 4)
	om := entry.NewOrderedMap()
	var last iface.IPFSLogEntry
	for i := 0; i < n; i++ {
		e, err := scratch.Append(w.ctx, []byte(fmt.Sprintf("evil%d", i)), nil)
		if err != nil {
			r.Harness("setup append: %v", err)
		}
		var use iface.IPFSLogEntry = e
		if i != 1 {
			kind := []int{bUnsigned, tSigFlip, tPayloadByte, tClockTime, bNoKey}[r.Choose("evil-kind", 5)]
			tr := tamper(r, e, kind, nil, nil)
			if tr.applied {
				use = tr.e
			}
		}
		om.Set(e.GetHash().String(), use)
		last = use
	}
	w.evil, err = ipfslog.NewLog(w.st, ws[3].ID, &ipfslog.LogOptions{ID: "L", Entries: om, Heads: []iface.IPFSLogEntry{last}, IO: w.io})
	if err != nil {
		r.Harness("NewLog: %v", err)
	}
}

// e1Controller permits everything but looks at the log's entries first, as a real policy may
// (this runs on Join's verification goroutines and inside Append's critical section).
type e1Controller struct{}

func (e1Controller) CanAppend(_ accesscontroller.LogEntry, _ identityprovider.Interface, c accesscontroller.CanAppendAdditionalContext) error {
	if c != nil {
		_ = c.GetLogEntries()
	}
	return nil
}
