package sim

import (
	"bytes"
	"context"
	"encoding/hex"
	"fmt"
	"runtime"
	"strconv"
	"sync"

	idp "berty.tech/go-ipfs-log/identityprovider"
	ks "berty.tech/go-ipfs-log/keystore"
	ds "github.com/ipfs/go-datastore"
	dssync "github.com/ipfs/go-datastore/sync"
	"github.com/libp2p/go-libp2p/core/crypto"
)

//go:norace
func goid() int64 {
	var buf [64]byte
	n := runtime.Stack(buf[:], false)
	f := bytes.Fields(buf[:n])
	id, _ := strconv.ParseInt(string(f[1]), 10, 64)
	return id
}

// Writer is a deterministic identity: its keys are fixed byte patterns written
// into the keystore's datastore under both the user id and the derived hex
// public-key id (CreateIdentity looks the signing key up under the latter and
// silently generates a random one if it is absent).
type Writer struct {
	Name string
	ID   *idp.Identity
	Priv crypto.PrivKey // the signing key (the one stored under the hex id)
	KS   *ks.Keystore
}

func keyBytes(seed byte, salt byte) []byte {
	b := make([]byte, 32)
	for i := range b {
		b[i] = seed ^ byte(i*7) ^ salt
	}
	b[0] = 1 + seed%200 // keep it a valid scalar well below the group order
	return b
}

func MakeWriter(name string, seed byte) (*Writer, error) {
	ctx := context.Background()
	store := dssync.MutexWrap(ds.NewMapDatastore())
	k1 := keyBytes(seed, 0x11)
	k2 := keyBytes(seed, 0x5a)
	if err := store.Put(ctx, ds.NewKey(name), k1); err != nil {
		return nil, err
	}
	p1, err := crypto.UnmarshalSecp256k1PrivateKey(k1)
	if err != nil {
		return nil, err
	}
	pb, _ := p1.GetPublic().Raw()
	if err := store.Put(ctx, ds.NewKey(hex.EncodeToString(pb)), k2); err != nil {
		return nil, err
	}
	keystore, err := ks.NewKeystore(store)
	if err != nil {
		return nil, err
	}
	id, err := idp.CreateIdentity(ctx, &idp.CreateIdentityOptions{Keystore: keystore, ID: name, Type: "orbitdb"})
	if err != nil {
		return nil, err
	}
	p2, err := crypto.UnmarshalSecp256k1PrivateKey(k2)
	if err != nil {
		return nil, err
	}
	return &Writer{Name: name, ID: id, Priv: p2, KS: keystore}, nil
}

var (
	writersOnce sync.Once
	writers     []*Writer
)

// Writers returns the process-wide pool of deterministic identities.
func Writers() []*Writer {
	writersOnce.Do(func() {
		for i := 0; i < 6; i++ {
			w, err := MakeWriter(fmt.Sprintf("writer%c", 'A'+i), byte(17+i*31))
			if err != nil {
				panic(&harnessError{"identity: " + err.Error()})
			}
			writers = append(writers, w)
		}
	})
	return writers
}
