package sim

// E2 fetch driver: runs one fetch (or loader) on its own goroutine with the
// store in parked mode and decides, from the tape, the order in which the
// outstanding block requests complete and in which finished workers enter the
// fetcher's critical section. Between actions it waits for quiescence, detected
// by inspecting all goroutine stacks against a positive whitelist of park points.

import (
	"fmt"
	"runtime"
	"runtime/debug"
	"sort"
	"strings"
	"sync"
	"sync/atomic"
	"time"

	"berty.tech/go-ipfs-log/entry"
	"berty.tech/go-ipfs-log/iface"
)

type hookWaiter struct {
	goid int64
	cid  string
	gate chan struct{}
	seq  int
}

type FetchDriver struct {
	R      *Run
	St     *Store
	Name   func(string) string
	Cancel func() // optional: cancels the fetch context
	// policy knobs
	// Progress, if non-nil, is handed to the load as its FetchOptions.ProgressChan (unbuffered): the
	// application's listener is the driver, which takes one item when the tape says so
	Progress   chan iface.IPFSLogEntry
	Consumed   int
	HookBias   int // 0 uniform, 1 admit finished workers eagerly, 2 release gets first
	CancelRate int // per-step chance (in 1/1000) to cancel when Cancel != nil; 0 = only when stuck
	MaxSteps   int

	mu             sync.Mutex
	waiters        []*hookWaiter
	wseq           int
	Steps          int
	Cancelled      bool
	MainSemBlocked int // how often main was found blocked on the semaphore at quiescence
	Leaked         int
	fnGoid         atomic.Int64
	fetcherMu      atomic.Pointer[sync.RWMutex]
}

// Tainted is set when a run leaves goroutines behind that cannot be released (a fetch that
// never returns): the worker process finishes reporting the run and asks to be replaced.
var Tainted atomic.Bool

var activeDrv atomic.Pointer[FetchDriver]

func init() {
	entry.VerifYield = fetchHook
	entry.VerifFetcherLock = func(mu *sync.RWMutex) {
		if d := activeDrv.Load(); d != nil {
			d.fetcherMu.Store(mu)
		}
	}
}

// fetcherLockFree probes (TryLock, released at once) the mutex of the fetcher created last under this
// driver. Only called at quiescence: every goroutine of the fetch is parked, so the answer is stable.
func (d *FetchDriver) fetcherLockFree() bool {
	mu := d.fetcherMu.Load()
	if mu == nil {
		return false
	}
	if mu.TryLock() {
		mu.Unlock()
		return true
	}
	return false
}

func fetchHook(site string) {
	d := activeDrv.Load()
	if d == nil {
		return
	}
	g := goid()
	d.St.mu.Lock()
	c := ""
	for i := len(d.St.pending) - 1; i >= 0; i-- {
		if d.St.pending[i].goid == g {
			c = d.St.pending[i].c.String()
			break
		}
	}
	d.St.mu.Unlock()
	w := &hookWaiter{goid: g, cid: c, gate: make(chan struct{})}
	d.mu.Lock()
	w.seq = d.wseq
	d.wseq++
	d.waiters = append(d.waiters, w)
	d.mu.Unlock()
	parkHook(w)
}

//go:noinline
func parkHook(w *hookWaiter) { <-w.gate }

type quiesce struct {
	done     bool
	mainCond bool
	mainSem  bool
	gets     int
	hooks    int
	stalled  int
	progress int // workers blocked handing an entry to the progress listener
	lockWait int // goroutines waiting for the fetcher's mutex (legitimate only while such a worker holds it)
}

type gInfo struct {
	id     int64
	parent int64
	state  string
	frames []string
}

func parseStacks(buf []byte) []gInfo {
	var out []gInfo
	for _, blk := range strings.Split(string(buf), "\n\n") {
		lines := strings.Split(blk, "\n")
		if len(lines) == 0 || !strings.HasPrefix(lines[0], "goroutine ") {
			continue
		}
		hdr := lines[0]
		i := strings.Index(hdr, "[")
		j := strings.LastIndex(hdr, "]")
		if i < 0 || j < i {
			continue
		}
		st := hdr[i+1 : j]
		if k := strings.Index(st, ","); k >= 0 {
			st = st[:k]
		}
		g := gInfo{state: st}
		fmt.Sscanf(hdr, "goroutine %d ", &g.id)
		for _, l := range lines[1:] {
			if l == "" || l[0] == '\t' {
				continue
			}
			g.frames = append(g.frames, l)
			if strings.HasPrefix(l, "created by ") {
				if k := strings.LastIndex(l, " in goroutine "); k >= 0 {
					fmt.Sscanf(l[k+len(" in goroutine "):], "%d", &g.parent)
				}
			}
		}
		out = append(out, g)
	}
	return out
}

func hasFrame(g gInfo, sub string) bool {
	for _, f := range g.frames {
		if strings.Contains(f, sub) {
			return true
		}
	}
	return false
}

var stackBuf = make([]byte, 1<<20)

// snapshot classifies every goroutine that runs library or harness code.
// ok=false means at least one of them is not at a whitelisted park point.
func (d *FetchDriver) snapshot() (q quiesce, ok bool) {
	n := runtime.Stack(stackBuf, true)
	for n == len(stackBuf) {
		stackBuf = make([]byte, 2*len(stackBuf))
		n = runtime.Stack(stackBuf, true)
	}
	ok = true
	for _, g := range parseStacks(stackBuf[:n]) {
		if hasFrame(g, "sim.(*FetchDriver).snapshot") {
			continue // the driver itself
		}
		// only the goroutine running fn and the goroutines it started belong to this fetch; anything
		// left over from an earlier (failed) run must not be mistaken for it
		fnID := d.fnGoid.Load()
		if fnID == 0 {
			ok = false // fn has not started yet
			continue
		}
		if g.id != fnID && g.parent != fnID {
			continue
		}
		switch {
		case hasFrame(g, "sim.(*Store).parkGet") && (g.state == "select" || g.state == "chan receive"):
			if g.state == "chan receive" {
				q.stalled++
			} else {
				q.gets++
			}
		case hasFrame(g, "sim.parkHook") && g.state == "chan receive":
			q.hooks++
		case g.state == "sync.Cond.Wait" && hasFrame(g, "sync.(*Cond).Wait") && hasFrame(g, "(*Fetcher).processQueue"):
			q.mainCond = true
		case g.state == "select" && hasFrame(g, "semaphore.(*Weighted).Acquire") && hasFrame(g, "(*Fetcher).processQueue"):
			q.mainSem = true
		case g.state == "chan send" && d.Progress != nil && hasFrame(g, "(*Fetcher).processQueue"):
			q.progress++
		case (strings.HasPrefix(g.state, "sync.RWMutex.") || g.state == "sync.Mutex.Lock") && hasFrame(g, "(*Fetcher).processQueue"):
			q.lockWait++
		default:
			ok = false
		}
	}
	if q.lockWait > 0 && q.progress == 0 && !q.mainSem {
		// nobody holds the fetcher's mutex in a parked state (a worker in the progress hand-over, the
		// dispatcher waiting for a slot): whoever holds it is about to release it - not settled yet
		ok = false
	}
	return q, ok
}

func (d *FetchDriver) waitQuiescent(done chan struct{}) quiesce {
	deadline := time.Now().Add(20 * time.Second)
	for i := 0; ; i++ {
		select {
		case <-done:
			return quiesce{done: true}
		default:
		}
		q, ok := d.snapshot()
		if ok {
			// a finished fn goroutine has no frames left: re-check done
			select {
			case <-done:
				return quiesce{done: true}
			default:
			}
			if q.mainCond || q.mainSem || q.gets+q.stalled+q.hooks+q.progress > 0 {
				return q
			}
		}
		if i < 50 {
			runtime.Gosched()
		} else {
			time.Sleep(20 * time.Microsecond)
		}
		if i%1000 == 999 && time.Now().After(deadline) {
			buf := make([]byte, 1<<16)
			n := runtime.Stack(buf, true)
			panic(&harnessError{"fetch driver: no quiescence within 20s\n" + string(buf[:n])})
		}
	}
}

type fetchPanic struct {
	val   interface{}
	stack string
}

// Run executes fn under the driver. Panics of fn's own goroutine are re-raised
// on the caller's goroutine (with the original stack text attached).
func (d *FetchDriver) Run(fn func()) {
	if d.MaxSteps == 0 {
		d.MaxSteps = 20000
	}
	if d.Name == nil {
		d.Name = func(s string) string { return s }
	}
	if !activeDrv.CompareAndSwap(nil, d) {
		panic(&harnessError{"fetch driver: nested run"})
	}
	d.St.mu.Lock()
	d.St.Parked = true
	d.St.pending = nil
	d.St.mu.Unlock()
	done := make(chan struct{})
	var fp *fetchPanic
	go func() {
		defer close(done)
		defer func() {
			if x := recover(); x != nil {
				fp = &fetchPanic{x, string(debug.Stack())}
			}
		}()
		d.fnGoid.Store(goid())
		fn()
	}()
	defer func() {
		// release anything still parked so no goroutine is leaked into the next run
		for _, r := range d.St.pendingGets() {
			d.Leaked++
			d.St.release(r)
		}
		d.mu.Lock()
		for _, w := range d.waiters {
			d.Leaked++
			close(w.gate)
		}
		d.waiters = nil
		d.mu.Unlock()
		for drained := d.Progress == nil; !drained; {
			select {
			case <-d.Progress: // a worker that outlived its fetch (defective library): let it go
				d.Leaked++
			default:
				drained = true
			}
		}
		d.St.mu.Lock()
		d.St.Parked = false
		d.St.mu.Unlock()
		activeDrv.Store(nil)
	}()
	for {
		q := d.waitQuiescent(done)
		if q.done {
			break
		}
		d.Steps++
		if d.Steps > d.MaxSteps {
			Tainted.Store(true)
			d.R.Violate("fetch-termination", "fetch still running after %d driver steps", d.MaxSteps)
		}
		if q.mainSem {
			d.MainSemBlocked++
		}
		gets := d.St.pendingGets()
		d.mu.Lock()
		hooks := append([]*hookWaiter(nil), d.waiters...)
		d.mu.Unlock()
		sort.SliceStable(hooks, func(i, j int) bool {
			if hooks[i].cid != hooks[j].cid {
				return hooks[i].cid < hooks[j].cid
			}
			return hooks[i].seq < hooks[j].seq
		})
		// with a progress listener a worker may be parked (holding the fetcher's mutex) in the hand-over of an
		// entry; other requests may still be completed
		// Determinism: a finished worker is let into the critical section only when nobody else can be
		// after the same mutex - the dispatcher waits in its condition variable and no worker sits in the
		// hand-over holding it. If a worker sits in the hand-over and the mutex is nevertheless free
		// (probed), others may go ahead: that order is then as legal and as repeatable as any.
		canAdmit := len(hooks) > 0 && ((q.mainCond && q.progress == 0) || (q.progress > 0 && d.fetcherLockFree()))
		// decide
		type act struct {
			kind int // 0 get, 1 hook, 2 cancel, 3 take one progress item
			i    int
		}
		var acts []act
		if d.HookBias == 1 && canAdmit {
			for i := range hooks {
				acts = append(acts, act{1, i})
			}
		} else if d.HookBias == 2 && len(gets) > 0 {
			for i := range gets {
				acts = append(acts, act{0, i})
			}
		} else {
			for i := range gets {
				acts = append(acts, act{0, i})
			}
			if canAdmit {
				for i := range hooks {
					acts = append(acts, act{1, i})
				}
			}
		}
		if q.progress > 0 {
			acts = append(acts, act{3, 0})
		}
		if d.Cancel != nil && !d.Cancelled && d.CancelRate > 0 && d.R.Choose("cancel?", 1000) < d.CancelRate {
			acts = []act{{2, 0}}
		}
		if len(acts) == 0 {
			// nothing can be completed: legitimate only while requests that never answer are outstanding
			// (then the caller's cancellation/timeout is the way out); otherwise the fetch is stuck
			if d.Cancel != nil && !d.Cancelled && q.stalled > 0 {
				acts = []act{{2, 0}}
			} else {
				Tainted.Store(true)
				d.R.Violate("fetch-termination", "fetch is stuck: not finished, nothing outstanding to complete (mainCond=%v mainSem=%v stalled=%d hooks=%d cancelled=%v)",
					q.mainCond, q.mainSem, q.stalled, len(hooks), d.Cancelled)
			}
		}
		a := acts[0]
		if len(acts) > 1 {
			a = acts[d.R.Choose("fetch-act", len(acts))]
			d.R.Nontrivial()
		}
		switch a.kind {
		case 0:
			g := gets[a.i]
			d.R.Logf("  fetch: complete get %s", d.Name(g.c.String()))
			d.St.release(g)
		case 1:
			w := hooks[a.i]
			d.R.Logf("  fetch: admit worker %s", d.Name(w.cid))
			d.mu.Lock()
			for i, x := range d.waiters {
				if x == w {
					d.waiters = append(d.waiters[:i], d.waiters[i+1:]...)
					break
				}
			}
			d.mu.Unlock()
			close(w.gate)
		case 3:
			select {
			case e := <-d.Progress:
				d.Consumed++
				d.R.Logf("  fetch: progress listener takes %s", d.Name(e.GetHash().String()))
			default:
				panic(&harnessError{"fetch driver: a worker is parked in the progress hand-over but nothing can be received"})
			}
		case 2:
			d.R.Logf("  fetch: cancel context")
			d.R.Fault("cancel")
			d.Cancelled = true
			d.Cancel()
		}
	}
	if fp != nil {
		site, lib := panicSite(fp.stack)
		if lib {
			panic(&Violation{Oracle: "panic", Msg: fmt.Sprintf("%v | %s", fp.val, site)})
		}
		if v, ok := fp.val.(*Violation); ok {
			panic(v)
		}
		if h, ok := fp.val.(*harnessError); ok {
			panic(h)
		}
		panic(&harnessError{fmt.Sprintf("%v | %s\n%s", fp.val, site, fp.stack)})
	}
}
