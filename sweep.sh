#!/bin/bash
# sweep.sh <tier> <budget_s> <seed...> : run every check under several batch seeds against $VERIF_REPO (or /repo),
# evidence into a scratch dir; prints one line per (seed, property).
cd "$(dirname "$0")"
tier=$1; b=$2; shift 2
for seed in "$@"; do
  for p in C01 C02 C03 C04 C05 C06 C07 C08 C09 C10 C11 C12 C13 C14 C15 C16 C17 C18 C20; do
    S=$(mktemp -d)
    VERIF_SEED=$seed VERIF_BUDGET_S=$b VERIF_EVIDENCE_DIR=$S/e VERIF_REPLAYS_DIR=$PWD/sweep-replays ./check $p $tier > $S/out 2> $S/err; rc=$?
    echo "seed=$seed $p exit=$rc $(tail -1 $S/err | cut -c1-160) $(grep -h VIOLATION $S/out | head -2 | tr '\n' ' ')"
    [ $rc = 0 ] || { mkdir -p sweep-fail; cp $S/err sweep-fail/$p-$seed.err; cp $S/out sweep-fail/$p-$seed.out; }
    rm -rf $S
  done
done
