#!/usr/bin/env python3
"""Regenerates MANIFEST.json from props_meta.py (single source of truth)."""
import json, os, subprocess, sys
ROOT = os.path.dirname(os.path.abspath(__file__))
sys.path.insert(0, ROOT)
from props_meta import PROPS, MANIFEST_TEXT, NOT_APPLICABLE

hook_commits = subprocess.run(["git", "-C", "/repo", "log", "--format=%H", "--grep=^verif:"], capture_output=True, text=True).stdout.split()
m = {
    "version": 1,
    "setup_cmd": "./check --setup",
    "hooks": {
        "guard": "verif",
        "enable": "go build -tags verif (module /verif/sim, replace berty.tech/go-ipfs-log => /repo); additionally -overlay with a build-time generated copy of keystore/keystore.go that has a scheduling point before each cache/store call (sim/cmd/yieldgen; /repo itself is not changed, hook variable nil unless a C20c run sets it)",
        "baseline_off_cmd": "cd /repo && GOFLAGS=-mod=mod GOPROXY=off GOSUMDB=off go test -json -vet=off -count=1 -timeout 25m ./...",
        "source_commits": hook_commits,
        "add_only": True,
    },
    "engines": [
        {"name": "E0", "path": "sim/e0*.go", "serves_properties": sorted(p for p, d in PROPS.items() if d["engine"] == "E0"),
         "kind_free_text": "discrete-event replica world over simstore/simnet with reference model"},
        {"name": "E1", "path": "sim/e1*.go", "serves_properties": sorted(p for p, d in PROPS.items() if d["engine"] == "E1"),
         "kind_free_text": "seeded task scheduler on shared logs, race build, lock hooks"},
        {"name": "E2", "path": "sim/fetchdrv.go sim/e2*.go", "serves_properties": sorted(p for p, d in PROPS.items() if d["engine"] == "E2"),
         "kind_free_text": "fetch driver: tape-ordered completion of parked block requests, fault injection"},
        {"name": "E3", "path": "sim/e3*.go", "serves_properties": sorted(p for p, d in PROPS.items() if d["engine"] == "E3"),
         "kind_free_text": "keystore world over a fault-injecting datastore"},
    ],
    "checks": [],
    "not_applicable": NOT_APPLICABLE,
    "notes": "All checks: ./check <id> quick|thorough; replay: ./check --replay <file>. Known findings: known_findings.txt. Design: DESIGN.md.",
}
for p in sorted(PROPS):
    d = PROPS[p]
    t = MANIFEST_TEXT[p]
    m["checks"].append({
        "property_id": p,
        "quick_cmd": "./check %s quick" % p,
        "thorough_cmd": "./check %s thorough" % p,
        "evidence_file": "evidence/%s.json" % p,
        "replay_cmd_template": "./check --replay {path}",
        "engine": d["engine"],
        "level_claimed": {"category": d["level"], "text": t["text"], "design_ref": t["design_ref"]},
        "level_note": t["note"],
        "technique": t["technique"],
    })
json.dump(m, open(os.path.join(ROOT, "MANIFEST.json"), "w"), indent=1)
print("MANIFEST.json:", len(m["checks"]), "checks,", len(NOT_APPLICABLE), "not applicable")
