#!/usr/bin/env python3
"""Rewrite the table of DESIGN.md section 12.5 from seeded/*/meta.json (one row per seeded change)."""
import glob, json, os, re
root = os.path.dirname(os.path.abspath(__file__))
rows = []
for d in sorted(glob.glob(os.path.join(root, "seeded", "s*")), key=lambda p: int(re.match(r"s(\d+)", os.path.basename(p)).group(1))):
    mp = os.path.join(d, "meta.json")
    if not os.path.exists(mp):
        continue
    m = json.load(open(mp))
    esc = lambda s: str(s).replace("|", "\\|").replace("\n", " ")
    rows.append("| %s | %s | %s | %s |" % (os.path.basename(d), m.get("property", ""), esc(m.get("change", "")), esc(m.get("detected_by", ""))))
p = os.path.join(root, "DESIGN.md")
s = open(p).read()
head = "| id | property | change | detected by |\n|---|---|---|---|\n"
i = s.index(head) + len(head)
j = s.index("\nWhat the misses taught")
s = s[:i] + "\n".join(rows) + "\n" + s[j:]
n = len(rows)
aft = sum(1 for r in rows if "(after" in r or " after " in r.split("|")[-2])
s = re.sub(r"(\w+) of (\w+) are detected within a\n15-20 s budget; (\w+) of them only after", "%d of %d are detected within a\n15-20 s budget; %d of them only after" % (n, n, aft), s)
open(p, "w").write(s)
print(n, "rows,", aft, "after strengthening")
