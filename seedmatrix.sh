#!/bin/bash
# seedmatrix.sh <repo-copy> <out.json> [budget_s] : for every seeded change, apply it to <repo-copy> (a scratch checkout,
# never /repo) and run every quick check against it (VERIF_REPO), recording which checks raise an alarm.
REPO=$1; OUT=$2; B=${3:-10}
cd "$(dirname "$0")"
export VERIF_REPO=$REPO VERIF_BUDGET_S=$B VERIF_SHRINK_RUNS=40 VERIF_SHRINK_S=20
echo "{" > $OUT
first=1
for d in seeded/s*; do
  id=$(basename $d)
  git -C $REPO checkout -q -- . ; { git -C $REPO apply $PWD/$d/patch.diff 2>/dev/null || git -C $REPO apply -C1 $PWD/$d/patch.diff; } || { echo "skip $id"; continue; }
  [ $first = 1 ] || echo "," >> $OUT; first=0
  echo "\"$id\": {" >> $OUT
  f2=1
  for p in C01 C02 C03 C04 C05 C06 C07 C08 C09 C10 C11 C12 C13 C14 C15 C16 C17 C18 C20; do
    S=$(mktemp -d)
    VERIF_EVIDENCE_DIR=$S/e VERIF_REPLAYS_DIR=$S/r ./check $p quick > $S/out 2> $S/err; rc=$?
    orc=$(grep -h "oracle=" $S/err | head -1 | sed 's/.*oracle=\([^ ]*\).*/\1/')
    [ $f2 = 1 ] || echo "," >> $OUT; f2=0
    echo -n "  \"$p\": {\"exit\": $rc, \"oracle\": \"$orc\"}" >> $OUT
    rm -rf $S
  done
  echo "}" >> $OUT
  git -C $REPO checkout -q -- .
done
echo "}" >> $OUT
