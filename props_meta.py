"""Per-property metadata used by ./check (budgets, evidence rule texts, components)."""

REAL_ALL = ["berty.tech/go-ipfs-log (log, entry, fetcher, sorting, io/cbor, io/pb, io/jsonable, enc, identityprovider, keystore, accesscontroller)",
            "go-ipld-cbor / refmt / go-cid / go-merkledag node codecs", "libp2p secp256k1 (RFC 6979 deterministic signatures)",
            "hashicorp/golang-lru", "go-datastore MapDatastore"]

COMPONENTS = {
    "E0": {"real": REAL_ALL,
           "stub": ["kubo CoreAPI -> simstore (bytes only; Dag().Add/Get, Pin().Add)", "network between replicas -> simnet (drop, dup, reorder, delay, partition)",
                    "clock -> simulated event time; Lamport clock jumps via LogOptions.Clock", "fetch completion order -> E2 fetch driver"]},
    "E2": {"real": REAL_ALL,
           "stub": ["kubo CoreAPI -> simstore in parked mode (every Get completes when the driver says so)", "goroutine admission to the fetcher mutex -> verif hook",
                    "timeouts -> context cancellation injected by the driver"]},
    "E1": {"real": REAL_ALL[:1] + REAL_ALL[1:3],
           "stub": ["goroutine scheduling -> seeded task scheduler (pipe hand-off invisible to the race detector)", "identity provider Sign -> lock-free signer with the same key",
                    "kubo CoreAPI -> task-local block sink"]},
    "E3": {"real": ["keystore.Keystore", "identityprovider (CreateIdentity, OrbitDB provider)", "hashicorp/golang-lru", "libp2p secp256k1"],
           "stub": ["datastore -> fault-injecting shim over MapDatastore", "crypto/rand key generation is real (keys compared by relation, never by value)"]},
}

E0_RULE = ("seeded replica worlds: 2-5 replicas, 1-4 (possibly shared) writers, both orderings, 10-40 events drawn from "
           "{append, live join, send/deliver of state snapshots in 6 forms, publish, crash, restart, partition, heal, clock jump, special merges, "
           "identity change, merge algebra on clones, stall}; one tape value per choice. A run is non-trivial when at least one fault fired or "
           "the fetch driver had a real choice; distinct = distinct SHA-256 digests of the full event log (which contains every cid).")


def e0(prop, extra_rule="", **kw):
    d = dict(engine="E0", variant="plain", level="exploration", quick_s=40, thorough_s=600,
             rule=E0_RULE + (" " + extra_rule if extra_rule else ""),
             assumptions=["simstore Add is atomic per block", "secp256k1 signatures are deterministic (RFC 6979)",
                          "sampling, not enumeration: a clean batch is evidence, not proof"])
    d.update(kw)
    return d


PROPS = {
    "C01": e0("C01", "Oracle: pairwise equality of entries/heads/manifest heads (and values under a strict order) for replicas with equal model sets after every event; "
              "special merges change nothing; commutativity/associativity/idempotence on clones; convergence within N anti-entropy rounds after heal; scratch logs started from a length-limited load and caught up by unbounded merges (heads = unreferenced entries; same entries => same values).",
              expected_probes=["equal-set-pair", "stale-delivery", "comparator-ties"]),
    "C02": e0("C02", "Oracle after every event on every replica: Heads/RawHeads/snapshot heads == unreferenced entries of the model set.",
              expected_probes=["multi-head-state"]),
    "C03": e0("C03", "Oracle after every event: Values/snapshot values/ToString complete, duplicate-free, causal, equal to the model sort under a strict order (orderings per world: last-write-wins, its hash-tiebreak variant, an application-defined time-then-hash order).",
              expected_probes=["comparator-ties"]),
    "C04": e0("C04", "Oracle at every Append return: next == model heads, clock id == writer key, time > every held time, single head, refs sound and logarithmic.",
              expected_probes=["append-with-refs", "append-on-forked-log"]),
    "C05": e0("C05", "Monitor: fingerprints of every entry of every replica never change; values grow by subsequence (strict orders); Len never decreases. Codec drawn per run (default, link-encrypting, legacy pb); logs with another codec configuration try to merge live replicas, whose entries must stay byte-identical and verifiable."),
}

DSIM = "deterministic simulation with fault injection: "
MANIFEST_TEXT = {
    "C01": dict(text="Seeded search over replica worlds (merge orders, stale/duplicate/reordered deliveries, partitions, crashes); every run compares all replicas with equal merged sets after every event and checks bounded convergence after heal. Sampling, not proof.",
                design_ref="DESIGN.md 3.2, 5 C01", note="Trusts the reference model (set union, maximal elements, sort) and simstore/simnet; real library code for everything else.",
                technique=DSIM + "seeded replica-world simulation (E0) with G-set reference model and pairwise convergence oracle"),
    "C02": dict(text="Heads invariant evaluated on every replica after every simulated event against the model's maximal elements.",
                design_ref="DESIGN.md 3.2, 5 C02", note="Trusts the reference model's definition of maximal elements.",
                technique=DSIM + "E0 replica world, state invariant after every event"),
    "C03": dict(text="Linearisation invariant (complete, duplicate-free, causal, sorted) evaluated on every replica after every simulated event.",
                design_ref="DESIGN.md 3.2, 5 C03", note="Orderings checked: LastWriteWins and SortByEntryHash; sequences compared only under a strict order.",
                technique=DSIM + "E0 replica world, state invariant after every event against the model sort"),
    "C04": dict(text="Every Append return in every simulated history is checked against the model heads/clock at that instant (after merges, clock jumps, restarts, identity changes).",
                design_ref="DESIGN.md 3.2, 5 C04", note="Reference envelope log2(p)+2 for references is generous by design.",
                technique=DSIM + "E0 replica world, per-operation oracle on Append"),
    "C05": dict(text="Monitor over successive observations of every replica instance (including bystanders that share entry objects) across every simulated event.",
                design_ref="DESIGN.md 3.2, 5 C05", note="Under comparator ties only set containment and sortedness are required of successive views.",
                technique=DSIM + "E0 replica world, history monitor over successive observations"),
}

NOT_APPLICABLE = [
    {"property_id": "C19", "reason": "pure functions of their arguments (comparators, clock compare, sort): no schedule, clock, fault, I/O or second party in the statement, so deterministic simulation has nothing to control; see DESIGN.md 5 C19. Comparator regressions that change a reachable linearisation are still caught by C01/C03."},
]
for _p in ["C06", "C07", "C08", "C09", "C10", "C11", "C12", "C13", "C14", "C15", "C16", "C17", "C18", "C20"]:
    if _p not in PROPS:
        NOT_APPLICABLE.append({"property_id": _p, "reason": "check under construction in this round (engine exists in DESIGN.md, not yet registered); will be claimed"})

PROPS.update({
    "C06": e0("C06", "Extra ops: byzantine batches (up to 40 new entries, bad entries at head/middle/root, 17 invalid kinds), access-control policies on scratch clones, denied appends; codec drawn per run (default, link-encrypting, legacy pb). Oracle: error + observably unchanged iff a candidate is invalid/denied; every appended entry verifies and is admitted by a fresh permissive replica.",
              expected_probes=["bad-entry-in-batch-over-8"]),
    "C07": e0("C07", "Extra op: one signed field of an honest entry (in memory or decoded from its stored block) is corrupted (14 kinds); oracle: Verify fails."),
    "C08": e0("C08", "Monitors on every append/publish: cid == hash of stored bytes, read-back field equality (binary payloads, link-encrypting codec), re-encode == same cid, manifest stable and read back; plus cross-process digest comparison and golden vectors.",
              expected_probes=["readback-binary-payload"], cross_process=96),
    "C15": e0("C15", "Extra op: Iterator on reached (forked) logs - and on log objects truncated by a size-bounded merge - with generated option combinations, channel capacity 0..n, consumer paced by the event loop; oracle: model iterator.",
              expected_probes=["iter-amount-zero", "iter-amount-beyond-range", "iter-related-bounds"]),
    "C16": e0("C16", "Extra op: size-bounded merges (bound 0..total+3, and the largest legal bounds up to MaxInt64) on scratch clones of pairs of reached logs; oracle: last min(n,total) of the model linearisation, heads, Len.",
              expected_probes=["bound-beyond-total", "bound-zero", "bounded-forked-result"]),
    "C18": e0("C18", "Writers use a link key; monitors scan every appended block for identifiers of every known entry (binary, multihash, 6 multibase forms) and for IPLD links; reader nodes with same/different/no key.",
              expected_probes=["linkkey-entry-with-links"]),
})

MANIFEST_TEXT.update({
    "C06": dict(text="Seeded byzantine senders and corrupting links inject 17 kinds of invalid entries at chosen depths of batches of up to 40 new entries, under three codecs and four access-control policies; every merge is checked for error + observably unchanged state, or no error + exactly the verified union.",
                design_ref="DESIGN.md 5 C06", note="Byzantine merges go into scratch clones of reached replicas; candidate set computed by the model's own difference walk. Race-detector coverage of the verification workers is part of C13.",
                technique=DSIM + "E0 replica world with byzantine/tampering fault injection and all-or-nothing merge oracle"),
    "C07": dict(text="Every honest entry shape the simulated worlds produce is corrupted in exactly one signed field (in flight or at rest) and must fail verification; one known finding (invalid-UTF-8 payload bytes) is listed in known_findings.txt.",
                design_ref="DESIGN.md 5 C07", note="No schedule dimension: the simulator contributes the entry population, the fault generator, shrinking and replay.",
                technique=DSIM + "tamper fault injection over entries produced by simulated histories, Verify oracle"),
    "C08": dict(text="Always-on codec monitors in simulated histories (hash of stored bytes, field-exact read-back incl. binary payloads and encrypted links, canonical re-encoding, manifest round trip), cross-process digest agreement (map order, process identity) and golden interop vectors.",
                design_ref="DESIGN.md 5 C08", note="Cross-process agreement is sampled over GOMAXPROCS 1/4/16 and fresh processes; golden vectors are the literals of test/entry_test.go.",
                technique=DSIM + "store-seam monitors in E0 runs + same-tape cross-process digest comparison + golden vectors"),
    "C15": dict(text="Iterator calls with generated bound/amount combinations on every kind of reached (forked) log, producer/consumer pacing by channel capacity, compared with a model iterator; no panic, error for unknown bounds, channel closed on success.",
                design_ref="DESIGN.md 5 C15", note="Under comparator ties only order-independent facts are required; related multi-bounds may fall short of the amount by (bounds-1).",
                technique=DSIM + "E0 reader tasks against a model iterator"),
    "C16": dict(text="Size-bounded merges with every kind of bound (0, in range, beyond total) on scratch clones of pairs of reached logs, compared with the model's truncated linearisation.",
                design_ref="DESIGN.md 5 C16", note="Under comparator ties the kept multiset of (time,id) keys is compared instead of the exact sequence.",
                technique=DSIM + "E0 scratch-clone bounded merges against the model linearisation"),
    "C18": dict(text="In worlds whose writers use a link key every appended block is scanned for identifiers of every known entry (binary, multihash, six multibase text forms) and for IPLD links; same-key readers must recover identical links, verify and merge; other-key and keyless readers must obtain none.",
                design_ref="DESIGN.md 5 C18", note="Leak scan covers the identifier encodings listed; it cannot prove absence of an exotic encoding.",
                technique=DSIM + "store-seam leak monitor + reader nodes with key configurations in E0"),
})
NOT_APPLICABLE[:] = [x for x in NOT_APPLICABLE if x["property_id"] not in PROPS]

E2_RULE = ("source logs are built by a fault-free E0 world (4-30 events: appends with pointer counts up to 64, live joins, in-memory deliveries; forks, diamonds, "
           "shared writers); then 2-5 load scenarios run under the fetch driver, which picks from the tape which parked block request completes next and which "
           "finished worker enters the fetcher's critical section (policy: uniform / workers first / requests first), with concurrency 1-6 or default. "
           "Non-trivial = the driver had a real choice or a fault fired; distinct = distinct event-log digests.")


def e2(prop, extra, level="exploration", **kw):
    d = dict(engine="E2", variant="plain", level=level, quick_s=40, thorough_s=600, rule=E2_RULE + " " + extra,
             assumptions=["executions in which a second worker overtakes the woken main loop of the fetcher are not explored (DESIGN.md 3.4)",
                          "timeouts are modelled as context cancellation injected by the driver", "sampling, not enumeration"])
    d.update(kw)
    return d


PROPS.update({
    "C09": e2("C09", "Oracle: log rebuilt by each of the four loaders has the same id, entries, heads, manifest heads and (strict orders) values as the source; some reloads follow a load its caller gave up (cancelled mid-way); half of the worlds pass one options value to every load.",
              expected_probes=["reload-multi-head", "fetch-main-blocked-on-semaphore"]),
    "C10": e2("C10", "Limits 0..size+2; each (source, loader, limit) is loaded 2-3 times under different completion orders/concurrency, a third of them after a load its caller gave up (cancelled with requests outstanding or queued); oracle: exactly min(max(n,k),size) entries = supplied + most recent others, never above the limit, identical across orders (which-ones skipped when a comparator tie sits on the cut).",
              expected_probes=["limit-zero", "limit-beyond-size", "fetch-main-blocked-on-semaphore"]),
    "C11": e2("C11", "Fault plan per scenario: none / one / few / many blocks, kinds notfound, error, undecodable, stall; excluded hashes; random or forced cancellation. Oracle: result == model closure over next and refs along retrievable non-excluded entries (subset when cancelled), no duplicate entry, no duplicate or excluded request, termination, nothing outstanding at return.",
              level="fault_enumeration", expected_probes=["fetch-cancelled", "fault-cuts-off-history", "fetch-main-blocked-on-semaphore", "timeout-fired", "returned-before-timeout", "single-faults-enumerated-completely"],
              also=[dict(prop="C11T", variant="vt", share=0.2)]),
    "C12": e2("C12", "One stored block (manifest, head, root, anywhere) is corrupted at rest: structure-level (22 field paths x absent/null/two wrong types/extra/empty), bit flip, truncation, garbage, or another well-formed object; decoded in-process (every accessor, comparator, Verify exercised on whatever comes back) and loaded through the loaders under the driver; oracle: no panic (in-process or worker death), load succeeds and returns exactly the remaining retrievable history.",
              level="fault_enumeration", expected_probes=["corrupt-block-still-decodes", "struct-mutations-enumerated-completely"]),
    "C20": dict(engine="E3", variant="plain", level="exploration", quick_s=30, thorough_s=300,
                rule="keystore worlds: 1-3 (later more) keystore instances over one fault-injecting datastore, 8-32 events from {create, get, has, open new instance, bulk-create 129+ keys to overflow the LRU, CreateIdentity twice on the same/different instances}, Put/Get I/O errors; after every event every sampled id is checked on every instance against a map model. Non-trivial = a fault fired, an instance was opened or the cache overflowed.",
                assumptions=["key bytes come from a tape-seeded stream substituted for crypto/rand.Reader: relations are compared, never key bytes", "ids are flat names, paths and URIs (some sharing their last component)", "keystore operations are atomic events (Keystore is not goroutine-safe by contract)"],
                expected_probes=["lru-eviction", "identity-across-instances"]),
})

MANIFEST_TEXT.update({
    "C09": dict(text="Reloads of simulated log states through all four loaders with the block-completion order, worker admission order and concurrency decided by the tape; rebuilt log compared with the source.",
                design_ref="DESIGN.md 3.4, 5 C09", note="Completion orders are sampled; overtaking of the woken fetcher main loop is not explored.",
                technique=DSIM + "E2 fetch driver (tape-ordered completion of parked block requests) with source-equality oracle"),
    "C10": dict(text="Length-limited loads for every limit from 0 to beyond the size, repeated under different tape-chosen completion orders; exact expected set from the model and direct schedule-independence comparison.",
                design_ref="DESIGN.md 3.4, 5 C10", note="The which-entries part is skipped when a comparator tie sits on the cut (count still checked).",
                technique=DSIM + "E2 fetch driver with model of the most-recent set and cross-schedule comparison"),
    "C11": dict(text="Per generated stored log, faulty block subsets of each kind (absent, error, undecodable, stalled), exclusions, concurrency and completion orders are drawn from the tape; result compared with the model's reachable closure, request log checked, termination enforced by the driver (stuck or leaking fetch = violation).",
                design_ref="DESIGN.md 3.4, 5 C11", note="In the E2 driver stalled blocks end by injected cancellation; the Timeout clause is decided by the virtual-time sub-batch (go1.26.8 testing/synctest, a fifth of the worker slots), where the order of concurrently runnable workers is the Go scheduler's. For logs of at most 12 blocks every block x fault kind is enumerated in a third of the scenarios; larger logs and multi-fault plans are sampled.",
                technique=DSIM + "E2 fetch driver with block-fault injection, reachable-set model and request-log oracle"),
    "C12": dict(text="At-rest corruption of one block per scenario, enumerated over field paths x mutation kinds plus byte-level damage, checked in-process and through every loader; worker-process death is attributed to the run and reported.",
                design_ref="DESIGN.md 3.4, 5 C12", note="Blocks are stored under their original cid (the simulated store does not re-verify hashes, like a faulty or malicious gateway).",
                technique=DSIM + "E2 corrupt-at-rest fault injection, crash-surviving parent process as panic oracle"),
    "C20": dict(text="Seeded operation sequences across keystore instances sharing a datastore (restart, LRU overflow, I/O errors) against a map model; identities re-created and cross-verified. A share of the runs (C20c, plain and race build) interleaves get/has/create tasks on shared instances under the seeded task scheduler, with scheduling points before every cache and datastore call of the keystore (inserted at build time through a compiler overlay).",
                design_ref="DESIGN.md 3.5, 5 C20", note="In the sequential worlds operations are atomic events; inside-operation interleavings are explored by the C20c runs for key-level operations only. Keys are random so only relations are compared.",
                technique=DSIM + "E3 keystore world with datastore fault injection and map reference model; E3c concurrent keystore world under the E1 task scheduler"),
})
NOT_APPLICABLE[:] = [x for x in NOT_APPLICABLE if x["property_id"] not in PROPS]

E1_RULE = ("2-3 logs of one id with 0-3 initial entries each, 2-4 tasks of 1-4 operations pre-drawn from the tape; tasks are real goroutines, exactly one runnable at a time "
           "(pipe hand-off invisible to the race detector); the scheduler picks the next task at every lock acquisition of the log (12 hook sites), 6 interior hooks, "
           "and every seam called inside a critical section (signer, block sink, proxy around the source log of a Join), with policy uniform / PCT priorities / "
           "sticky with random pre-emptions. Exact per-log state sequences are recorded inside the mutators' critical sections. Non-trivial = the scheduler had a "
           "real choice; distinct = distinct event-log digests (schedule + results).")

PROPS.update({
    "C13": dict(engine="E1", variant="race", level="exploration", quick_s=40, thorough_s=600, run_timeout_s=60,
                rule=E1_RULE + " C13: all tasks work on one shared log (appends, merges in from growing sources and from a batch with several invalid entries, every read accessor, "
                "identity change, manifest publication). Oracles: race detector (process dies with code 66), scheduler deadlock rule, every read equals a state the log had during the call, "
                "appends appear once/chain/real-time order, porcupine linearizability against a sequential set model with nondeterministic join.",
                assumptions=["interleavings are explored at lock acquisitions, hooks and seams, not at arbitrary instructions; the race detector covers the instruction level for the schedules that ran",
                             "the signer is a lock-free stub with the same key (the real keystore's mutexes would add happens-before edges)"],
                expected_probes=["concurrent-appends-one-log", "join-overlaps-source-mutation", "join-with-several-invalid-entries"]),
    "C14": dict(engine="E1", variant="race", level="exploration", quick_s=40, thorough_s=600, run_timeout_s=60,
                rule=E1_RULE + " C14: tasks append to and merge between any of the logs (cross-merges, rings, merge while the source is appended to or merged into), the proxy yields between the "
                "source reads. Oracles: no deadlock; every log ends with heads that are its unreferenced entries and is causally closed; each Join's result is the union of the destination's previous "
                "state with a state the source held between the call and the merge instant (exact state sequences).",
                assumptions=["recursive read-locking deadlocks are modelled only through TryLock polling of the real locks"],
                expected_probes=["join-overlaps-source-mutation"]),
    "C17": e0("C17", "Store image checked after every block write (closure of next/refs/heads of the new block; no block rewritten), every returned pointer (entry hash, manifest) reloaded from the image of that instant through the loaders under the fetch driver, single-replica and whole-system crashes with restart from durable pointers, failing block writes (disk error) on appends and publications, sample of all pointers reloaded from the final image; block removals are monitored (nothing a replica holds or a stored block links to may be removed), refused appends may re-create an entry another replica of the same writer holds.",
              level="fault_enumeration", quick_s=45,
              expected_probes=[]),
})
MANIFEST_TEXT.update({
    "C13": dict(text="Race build; a seeded scheduler serialises 2-4 goroutines on one shared log and decides every interleaving at lock acquisitions, interior hooks and seams; data races kill the worker (exit 66) and are attributed to the run; reads are checked against the exact state sequence and the history with porcupine.",
                design_ref="DESIGN.md 3.3, 5 C13", note="Hooks (tag verif) before every l.lock acquisition and at 6 interior points; pipe hand-off keeps the scheduler invisible to TSan.",
                technique=DSIM + "E1 seeded task scheduler under the race detector, deadlock rule on the real locks, porcupine linearizability of the recorded history"),
    "C14": dict(text="Same scheduler; cross-merges, rings and merges from logs that are concurrently appended to or merged into; every Join result must be the union with a state the source really had in the window, every log must end well-formed, and no schedule may block all tasks.",
                design_ref="DESIGN.md 3.3, 5 C14", note="Source states are recorded exactly inside the mutators' critical sections via the interior hooks.",
                technique=DSIM + "E1 seeded task scheduler with proxy seam around the source log, deadlock detection and union-with-an-instant oracle"),
    "C17": dict(text="Inside each generated history every block write is a crash point at which the store image is checked for causal closure, and every pointer ever returned is reloaded from the image of its instant (and a sample again at the end); crashes and failing writes are injected and recovery is exercised.",
                design_ref="DESIGN.md 5 C17", note="Add is atomic per block at the store seam; a torn write is modelled as a failed or absent block. Merges write nothing.",
                technique=DSIM + "E0 with write-log crash-point enumeration, disk-error injection and reload oracle"),
})
NOT_APPLICABLE[:] = [x for x in NOT_APPLICABLE if x["property_id"] not in PROPS]

# C01-C05: a fifth of the worker slots runs the shared-log scenarios of the E1 scheduler (race build):
# their statements must also hold for histories that are concurrent on one log instance.
for _p in ("C01", "C02", "C03", "C04", "C05"):
    PROPS[_p]["also"] = [dict(prop=_p + "c", variant="race", share=0.2)]
    PROPS[_p]["rule"] += (" A fifth of the runs are E1 runs (seeded task scheduler, race build): 2-4 tasks appending, merging and reading on one shared log; "
                          "final states, every append and every read are checked against the exact state sequence.")

# fetch engine and byzantine merges also under the race detector: a fifth of the worker slots runs the same
# runs with the -race build (the library's own goroutines - fetch workers, verification workers - are real)
# C15, C16: a fifth of the worker slots runs E1 scenarios in which tasks iterate and merge with small size bounds on one shared log
for _p in ("C15", "C16"):
    PROPS[_p].setdefault("also", []).append(dict(prop=_p + "c", variant="race", share=0.2))
    PROPS[_p]["rule"] += (" A fifth of the runs are E1 runs (seeded task scheduler, race build): tasks append, iterate and merge with small size bounds on one shared log; "
                          "every cut is checked against the linearisation of the state it was taken from, every iteration against the states the log had during the call.")

# C17: replicas of one writer writing identical blocks to one store at overlapping times (E1, race build)
PROPS["C17"].setdefault("also", []).append(dict(prop="C17c", variant="race", share=0.2))
PROPS["C17"]["rule"] += (" A fifth of the runs are E1 runs (seeded task scheduler, race build): 2-3 replicas of one writer, starting empty, append payloads drawn from two values, "
                         "merge and publish concurrently, so that identical entry and manifest blocks are written at overlapping times (block writes are scheduling points); "
                         "oracle: what an operation returned was written before it returned, and every block after the blocks it links to.")

# C17 also in virtual time: the reload of an acknowledged identifier overlapping with a load that is given up
PROPS["C17"].setdefault("also", []).append(dict(prop="C17T", variant="vt", share=0.1))
PROPS["C17"]["rule"] += (" A tenth of the worker slots runs C17T (go1.26.8 synctest bubble): a reload overlaps in virtual time with another load on the same store that its caller gives up; "
                         "the reload must rebuild exactly the log it was asked for.")

# C09 also in virtual time: two loads overlapping on one store, one of them given up by its caller
PROPS["C09"].setdefault("also", []).append(dict(prop="C09T", variant="vt", share=0.15))
PROPS["C09"]["rule"] += (" An eighth of the worker slots runs C09T (go1.26.8 synctest bubble): two loads overlap in virtual time on one store, the first is given up "
                         "(context deadline or fetch timeout) while blocks are still on their way, the second must rebuild exactly the log it was asked for.")

# C20: a quarter of the worker slots runs the concurrent keystore world (E1 task scheduler; the keystore's cache and
# datastore calls are scheduling points inserted at build time by sim/cmd/yieldgen through a compiler overlay)
PROPS["C20"].setdefault("also", []).append(dict(prop="C20c", variant="plain", share=0.15))
PROPS["C20"]["also"].append(dict(prop="C20c", variant="race", share=0.15))  # the same runs under the race detector
PROPS["C20"]["rule"] += (" Three in ten worker slots run C20c (half of them under the race detector): 100-160 keys (either side of the cache capacity) on 1-2 instances, then 2-3 tasks doing get / has / create of "
                         "distinct new ids on them concurrently under the seeded task scheduler, switched before every cache or datastore call of the keystore; oracle: a key created "
                         "earlier is present and identical in every interleaving, an id never created is absent, a key being created is absent or the creator's key, and afterwards "
                         "every instance and a new one agree with the model.")
PROPS["C20"]["assumptions"] = [a for a in PROPS["C20"]["assumptions"] if not a.startswith("keystore operations are atomic")] + [
    "in the sequential keystore worlds operations are atomic events; interleavings inside operations are explored by the C20c runs, for key-level operations only (identities are not created concurrently for one new id)"]
PROPS["C20"]["expected_probes"] = PROPS["C20"]["expected_probes"] + ["concurrent-keystore-tasks"]

for _p in ("C06", "C07", "C08", "C09", "C10", "C11", "C12", "C18"):
    PROPS[_p].setdefault("also", []).append(dict(prop=_p, variant="race", share=0.2))
    PROPS[_p]["rule"] += " A fifth of the runs execute under the race detector (a report kills the worker with exit 66 and is attributed to the run)."
