#!/bin/bash
# detall.sh <seeds> <reps>: determinism self-test of every engine/property: same seeds in <reps> fresh processes
cd "$(dirname "$0")"
for p in C20c:plain C20c:race C17T:vt C11T:vt C09T:vt C15c:race C16c:race C17c:race C02c:race C05c:race C12:race C06:race C01 C02 C03 C04 C05 C06 C07 C08 C09 C10 C11 C12 C13 C14 C15 C16 C17 C18 C20; do
  VERIF_DET_REPS=${2:-30} ./check --determinism $p ${1:-60} 2>/dev/null | tail -1
done
