#!/bin/bash
# verify_seed.sh <src MUTATION dir> <seeded id> <go test args for the demo...>
# Confirms in a fresh scratch worktree: patch applies, builds (with and without -tags verif), suite passes with the
# patch, demo fails with the patch, demo passes without it. Then stores the material under /verif/seeded/<id>/.
set -u
SRC=$1; ID=$2; shift 2
export GOFLAGS=-mod=mod GOPROXY=off GOSUMDB=off GOTOOLCHAIN=local
WT=/tmp/mut/verify-$ID
git -C /repo worktree remove --force $WT 2>/dev/null
git -C /repo worktree add -q $WT HEAD || exit 2
res() { echo "$1" | tee -a $WT/verify.log; }
cd $WT
git apply $SRC/patch.diff || { res "PATCH DOES NOT APPLY"; exit 1; }
go build ./... && go build -tags verif ./... || { res "BUILD FAILS"; exit 1; }
if go test -vet=off -count=1 -timeout 25m ./... > suite.log 2>&1; then res "suite with patch: PASS"; else res "suite with patch: FAIL"; tail -20 suite.log; fi
for f in $SRC/*_test.go $SRC/*_test.go.txt; do [ -e "$f" ] && cp "$f" test/$(basename "${f%.txt}"); done
if go test -vet=off -count=1 -timeout 10m "$@" ./test/ > demo_with.log 2>&1; then res "demo with patch: PASS (unexpected)"; else res "demo with patch: FAIL (expected)"; fi
git apply -R $SRC/patch.diff
if go test -vet=off -count=1 -timeout 10m "$@" ./test/ > demo_without.log 2>&1; then res "demo without patch: PASS (expected)"; else res "demo without patch: FAIL (unexpected)"; tail -20 demo_without.log; fi
mkdir -p /verif/seeded/$ID
cp $SRC/patch.diff /verif/seeded/$ID/
for f in $SRC/*_test.go $SRC/*_test.go.txt $SRC/README.md; do [ -e "$f" ] && cp "$f" /verif/seeded/$ID/$(basename "$f" | sed 's/_test\.go$/_test.go.txt/'); done
cp verify.log /verif/seeded/$ID/verify.log
grep -h -m3 "^--- FAIL\|^    .*Error\|panic:" demo_with.log | head -5
cd /; git -C /repo worktree remove --force $WT
