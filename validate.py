#!/opt/veriftools/pyvenv/bin/python
import json, jsonschema, glob, sys
m=json.load(open('/verif/MANIFEST.json')); s=json.load(open('/root/.vp/MANIFEST.schema.json')); jsonschema.validate(m,s); print("manifest valid")
es=json.load(open('/root/.vp/EVIDENCE.schema.json'))
for f in sorted(glob.glob('/verif/evidence/*.json')):
    jsonschema.validate(json.load(open(f)), es); print(f, "valid")
