#!/usr/bin/env python3
"""mkprompts.py <out-dir> <worktree-root> [PROP ...]: write one seeder prompt per property.
A prompt holds the text of the property (from properties.jsonl), the build/test rules, and the one-line
descriptions of the changes earlier seeders made for that property (seeded/*/meta.json "change") with the
request to choose a different mechanism. Nothing else from /verif goes into a prompt."""
import glob, json, os, sys
root = os.path.dirname(os.path.abspath(__file__))
out, wtroot = sys.argv[1], sys.argv[2]
want = sys.argv[3:]
os.makedirs(out, exist_ok=True)
earlier = {}
for f in sorted(glob.glob(os.path.join(root, "seeded", "*", "meta.json"))):
    m = json.load(open(f))
    earlier.setdefault(m["property"], []).append(m["change"])
T = open(os.path.join(root, "seeder_prompt_template.txt")).read()
for l in open(os.path.join(root, "properties.jsonl")):
    p = json.loads(l)
    pid = p["id"]
    if want and pid not in want:
        continue
    wt = os.path.join(wtroot, pid)
    prop = "Property %s: %s\n\nStatement: %s\n\nQuantifier: %s\n\nWhy the existing tests cannot settle it: %s\n\nCode the property is anchored in: %s\n" % (
        pid, p["title"], p["statement"], p["quantifier"]["text"], p["why_tests_cant"], ", ".join(p["anchors"]["files"]))
    hints = ""
    if earlier.get(pid):
        hints = ("IMPORTANT - Earlier seeders already used these mechanisms for this property; choose a clearly DIFFERENT one "
                 "(a different function or package, a different clause of the property, a different kind of trigger):\n"
                 + "".join("  - %s\n" % c for c in earlier[pid]))
    open(os.path.join(out, pid + ".full.txt"), "w").write(T.replace("{WT}", wt).replace("{PROP}", prop).replace("{HINTS}", hints).replace("{ROUND}", os.environ.get("SEEDER_ROUND_HINT", "")))
    print(pid, len(earlier.get(pid, [])), "earlier mechanisms")
