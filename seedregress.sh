#!/bin/bash
# seedregress.sh <repo-copy> <out.txt> [budget_s] : regression over the seeded changes: apply each one to <repo-copy>
# (a scratch checkout, never /repo) and run the check named in its meta.json (check_that_detects) against it.
# One line per seed: id, property, exit code, first oracle. Every line should say exit=1. SEED_FROM / SEED_TO restrict the range of seed numbers.
REPO=$1; OUT=$2; B=${3:-20}
cd "$(dirname "$0")"
export VERIF_REPO=$REPO VERIF_BUDGET_S=$B VERIF_SHRINK_RUNS=30 VERIF_SHRINK_S=15
: > $OUT
for d in $(ls -d seeded/s* | sort -t s -k3 -n); do
  id=$(basename $d)
  n=${id#s}; n=${n%%-*}
  if [ "$n" -lt "${SEED_FROM:-0}" ] || [ "$n" -gt "${SEED_TO:-100000}" ]; then continue; fi
  p=$(python3 -c "import json,sys; m=json.load(open('$d/meta.json')); print(m.get('check_that_detects') or m.get('property',''))" 2>/dev/null)
  [ -n "$p" ] || { echo "$id no meta" >> $OUT; continue; }
  if grep -q '"neutralised"' $d/meta.json; then echo "$id $p neutralised by a later fix (skipped)" >> $OUT; continue; fi
  git -C $REPO checkout -q -- . ; { git -C $REPO apply $PWD/$d/patch.diff 2>/dev/null || git -C $REPO apply -C1 $PWD/$d/patch.diff; } || { echo "$id patch does not apply" >> $OUT; continue; }
  S=$(mktemp -d)
  VERIF_EVIDENCE_DIR=$S/e VERIF_REPLAYS_DIR=$S/r ./check $p quick > $S/out 2> $S/err; rc=$?
  orc=$(grep -h "oracle=" $S/err | head -1 | sed 's/.*oracle=\([^ ]*\).*/\1/')
  echo "$id $p exit=$rc $orc" >> $OUT
  rm -rf $S
  git -C $REPO checkout -q -- .
done
echo "missed: $(grep -v 'exit=1' $OUT | grep -vc neutralised) of $(wc -l < $OUT)" >> $OUT
